"""C11, stage-wise part: run the REAL `entry()` of bin/martinize2 in-process (patched sys.argv, scratch working directory) in a
freshly forked worker and record, after every pipeline stage, a presentation-free abstraction Abs(system).

Stages are observed by wrapping `run_system` of every `vermouth.processors.processor.Processor` subclass (found by walking
`Processor.__subclasses__()` recursively, after the CLI module has been loaded); only outermost calls are stages (a processor
calling `super().run_system` or another processor from inside is part of that stage).

Abs(system) has four components, each a canonically sorted list (bags are folded into counts):
  atoms  [key, [resname, element, atype, charge*1e4, secondary structure labels, modification labels, mass*1e3], count]
  edges  [key_a, key_b, count]                          key_a <= key_b
  inters [type, [keys], [[kind, string, int*1e4]...], meta, count]
  occ    [key, molecule index, has position, [x, y, z]]  one entry per atom; integer thousandths of an Angstrom
key = [chain, resid, insertion code, name].  The name of a heavy atom / bead is its atom name (the transformations of C11 never
rename heavy atoms); the name of a HYDROGEN is 'H@' + the names of the heavy atoms it is bonded to, at every atomistic stage:
which of two hydrogens on one carbon is called HB1 is not chemistry (the reference graph is matched by connectivity, the
tie is broken by name order) - but how many there are, where they sit and what they are bonded to is.  Entries of `occ` with equal
key are ordered by their coordinates taken back to the frame of the base presentation (the motion is exact on the integer grid),
so that TLC can compare the two lists position by position; a wrong order can only make TLC reject.

The worker also recomputes, from the coordinates the real processors are about to see, which items lie ON a geometric
threshold (1e-6 relative band): distance-guessed bonds (MakeBonds), the -cys distance (AddCysteinBridgesThreshold) and the
elastic-network upper cut-off (ApplyRubberBand).  These are the only admissible differences (property statement)."""
import contextlib
import importlib.machinery
import importlib.util
import io
import json
import math
import os
import shutil
import sys
import tempfile
import traceback

from .common import REPO
from . import indep_readers

MISSING = 99999999
BAND = 1e-6
IDENT = {'perm': [1, 2, 3], 'sg': [1, 1, 1], 'sh': [0, 0, 0]}


def load_cli():
    path = os.path.join(REPO, 'bin', 'martinize2')
    loader = importlib.machinery.SourceFileLoader('martinize2_cli_verif_c11', path)
    spec = importlib.util.spec_from_loader(loader.name, loader)
    mod = importlib.util.module_from_spec(spec)
    loader.exec_module(mod)
    return mod


_PRE = {}


def preload():
    """Parse the shipped force fields and mappings ONCE, in the parent, with the two functions entry() itself calls; the forked
    workers hand these objects (copy-on-write, private to the worker) to entry() instead of parsing ~6 s per run.  Nothing
    that depends on the presentation of the input is involved; the subprocess route parses them itself every time."""
    if _PRE:
        return
    from pathlib import Path
    import vermouth.forcefield
    from vermouth import DATA_PATH
    from vermouth.map_input import read_mapping_directory
    ffs = vermouth.forcefield.find_force_fields(Path(DATA_PATH) / 'force_fields')
    _PRE['ff_dir'] = Path(DATA_PATH) / 'force_fields'
    _PRE['map_dir'] = Path(DATA_PATH) / 'mappings'
    _PRE['ffs'] = ffs
    _PRE['maps'] = read_mapping_directory(Path(DATA_PATH) / 'mappings', ffs)


def use_preloaded(cli):
    if not _PRE:
        return
    import vermouth.forcefield
    real_find, real_read = vermouth.forcefield.find_force_fields, cli.read_mapping_directory

    def find_force_fields(directory, force_fields=None):
        if force_fields is None and directory == _PRE['ff_dir']:
            return _PRE['ffs']
        return real_find(directory, force_fields)

    def read_mapping_directory(directory, force_fields):
        if directory == _PRE['map_dir'] and force_fields is _PRE['ffs']:
            return _PRE['maps']
        return real_read(directory, force_fields)

    vermouth.forcefield.find_force_fields = find_force_fields
    cli.read_mapping_directory = read_mapping_directory


def all_subclasses(cls):
    seen, todo = [], [cls]
    while todo:
        c = todo.pop()
        for s in c.__subclasses__():
            if s not in seen:
                seen.append(s)
                todo.append(s)
    return seen


# ----------------------------------------------------------------------------------------------------------- abstraction
def _s(v):
    return '' if v is None else str(v)


def _int(v, scale):
    try:
        f = float(v)
    except (TypeError, ValueError):
        return MISSING
    if f != f or abs(f) > 2e5:
        return MISSING
    return int(round(f * scale))


def _res(attrs):
    resid = attrs.get('resid')
    try:
        resid = int(resid)
    except (TypeError, ValueError):
        resid = -99999
    return [_s(attrs.get('chain')), resid, _s(attrs.get('insertion_code'))]


def node_keys(mol):
    """node -> key; hydrogens are named after the heavy atoms they are bonded to."""
    keys = {}
    nodes = mol.nodes
    for n, a in nodes.items():
        if a.get('element') == 'H':
            par = sorted(_s(nodes[m].get('atomname')) for m in mol.neighbors(n) if nodes[m].get('element') != 'H')
            name = 'H@' + '+'.join(par)
        else:
            name = _s(a.get('atomname'))
        keys[n] = _res(a) + [name]
    return keys


def _mods(a):
    out = []
    for m in a.get('modification') or []:
        out.append(_s(m))
    for m in a.get('modifications') or []:
        out.append('=' + _s(getattr(m, 'name', m)))
    return ','.join(sorted(out))


def _param(p):
    if isinstance(p, (int, float)) and not isinstance(p, bool):
        f = float(p)
    else:
        try:
            f = float(_s(p))
        except ValueError:
            return ['s', _s(p), 0]
    if f != f or abs(f) > 2e5:
        return ['s', _s(p), 0]
    return ['n', '', int(round(f * 10000))]


def _pos(a, inv):
    p = a.get('position')
    if p is None:
        return False, [0, 0, 0]
    try:
        c = [float(p[0]), float(p[1]), float(p[2])]
    except (TypeError, ValueError, IndexError):
        return False, [0, 0, 0]
    if any(v != v or abs(v) > 2e4 for v in c):
        return False, [0, 0, 0]
    return True, [int(round(v * 10000)) for v in c]       # nm -> thousandths of an Angstrom


def _unmove(motion, c):
    out = [0, 0, 0]
    for d in range(3):
        out[motion['perm'][d] - 1] = motion['sg'][d] * (c[d] - motion['sh'][d])
    return out


def _fold(records):
    """sorted list of records -> sorted list of record + [count]."""
    out = []
    for r in sorted(records):
        if out and out[-1][:-1] == r:
            out[-1][-1] += 1
        else:
            out.append(r + [1])
    return out


def abs_system(system, motion):
    atoms, edges, inters, occ = [], [], [], []
    for g, mol in enumerate(system.molecules):
        keys = node_keys(mol)
        for n, a in mol.nodes.items():
            ss = '/'.join(_s(a.get(x)) for x in ('secstruct', 'aasecstruct', 'cgsecstruct'))
            atoms.append([keys[n], [_s(a.get('resname')), _s(a.get('element')), _s(a.get('atype')), _int(a.get('charge'), 10000),
                                    ss, _mods(a), _int(a.get('mass'), 1000)]])
            has, c = _pos(a, motion)
            occ.append(([keys[n], g, has, c], _unmove(motion, c)))
        for u, v in mol.edges:
            ku, kv = keys[u], keys[v]
            edges.append([ku, kv] if ku <= kv else [kv, ku])
        for typ, lst in mol.interactions.items():
            for it in lst:
                meta = ';'.join('%s=%s' % (k, it.meta[k]) for k in sorted(it.meta, key=str))
                inters.append([_s(typ), [keys[x] for x in it.atoms], [_param(p) for p in it.parameters], meta])
    occ.sort(key=lambda t: (t[0][0], t[0][1], t[0][2], t[1]))
    return {'atoms': _fold(atoms), 'edges': _fold(edges), 'inters': _fold(inters), 'occ': [t[0] for t in occ]}


COMPONENTS = ('atoms', 'edges', 'inters', 'occ')


class Recorder:
    """Content-addressed tables: a component that did not change between stages is stored once."""
    def __init__(self, motion):
        self.motion = motion
        self.names = []
        self.idx = []
        self.tables = {c: [] for c in COMPONENTS}
        self._seen = {c: {} for c in COMPONENTS}
        self.depth = 0
        self.thr = []
        self.probe = {}
        self.final = []
        self.errors = []

    def record(self, name, system):
        ab = abs_system(system, self.motion)
        row = []
        for c in COMPONENTS:
            blob = json.dumps(ab[c], separators=(',', ':'))
            i = self._seen[c].get(blob)
            if i is None:
                self.tables[c].append(ab[c])
                i = len(self.tables[c])
                self._seen[c][blob] = i
            row.append(i)
        n = sum(1 for x in self.names if x.split('#')[0] == name) + 1
        self.names.append('%s#%d' % (name, n))
        self.idx.append(row)
        self.final = [{'moltype': _s(mol.meta.get('moltype')), 'keys': [node_keys(mol)[n] for n in mol.nodes]}
                      for mol in system.molecules]


# ------------------------------------------------------------------------------------------------ items on a threshold
def _dist(p, q):
    return math.sqrt((p[0] - q[0]) ** 2 + (p[1] - q[1]) ** 2 + (p[2] - q[2]) ** 2)


def _on(d, t):
    return t > 0 and abs(d - t) <= BAND * t


def _item(kind, ka, kb, d, t):
    if kb < ka:
        ka, kb = kb, ka
    return {'kind': kind, 'ra': ka[:3], 'rb': kb[:3], 'ka': ka, 'kb': kb, 'd': repr(d), 't': repr(t)}


def thr_bonds(proc, system):
    """atom pairs whose distance is within the band of fudge * (r1 + r2) / 2 (the criterion of _bonds_from_distance)."""
    from vermouth.processors.make_bonds import VDW_RADII
    import numpy as np
    from scipy.spatial import cKDTree
    out = []
    if not getattr(proc, 'allow_dist', True):
        return out
    fudge = float(proc.fudge)
    for mol in system.molecules:
        sel = [(n, a) for n, a in mol.nodes.items() if a.get('element') in VDW_RADII and a.get('position') is not None]
        if len(sel) < 2:
            continue
        pos = np.array([a['position'] for _, a in sel], dtype=float)
        if np.isnan(pos).any():
            continue
        rmax = max(VDW_RADII[a['element']] for _, a in sel) * fudge * (1 + 2 * BAND)
        tree = cKDTree(pos)
        keys = node_keys(mol)
        for i, j in tree.query_pairs(rmax):
            (n1, a1), (n2, a2) = sel[i], sel[j]
            e1, e2 = a1['element'], a2['element']
            same = _res(a1) == _res(a2)
            if (e1 == 'H' and e2 == 'H') or (not same and 'H' in (e1, e2)):
                continue
            t = 0.5 * (VDW_RADII[e1] + VDW_RADII[e2]) * fudge
            d = _dist(pos[i], pos[j])
            if _on(d, t):
                out.append(_item('bond', keys[n1], keys[n2], d, t))
    return out


def thr_cys(proc, system):
    from vermouth.molecule import attributes_match
    out = []
    t = float(proc.threshold)
    sel = []
    for mol in system.molecules:
        keys = node_keys(mol)
        for n, a in mol.nodes.items():
            if any(attributes_match(a, tpl) for tpl in proc.templates_from) and a.get(proc.attribute) is not None:
                sel.append((keys[n], [float(v) for v in a[proc.attribute]]))
    for i in range(len(sel)):
        for j in range(i + 1, len(sel)):
            d = _dist(sel[i][1], sel[j][1])
            if _on(d, t):
                out.append(_item('cys', sel[i][0], sel[j][0], d, t))
    return out


def thr_elastic(proc, system, probe=None):
    out = []
    t = float(proc.upper_bound)
    best = None
    for mol in system.molecules:
        keys = node_keys(mol)
        sel = [(keys[n], [float(v) for v in a['position']]) for n, a in mol.nodes.items()
               if proc.selector(a) and a.get('position') is not None]
        for i in range(len(sel)):
            for j in range(i + 1, len(sel)):
                d = _dist(sel[i][1], sel[j][1])
                if _on(d, t):
                    out.append(_item('elastic', sel[i][0], sel[j][0], d, t))
                # probe: the longest distance below the cut-off between beads of one chain, five or more residues apart
                if d < t * (1 - 1e-3) and sel[i][0][0] == sel[j][0][0] and abs(sel[i][0][1] - sel[j][0][1]) >= 5 \
                        and (best is None or d > best):
                    best = d
    if probe is not None and best is not None:
        probe['elastic'] = repr(best)
    return out


PRE_HOOKS = {'MakeBonds': thr_bonds, 'AddCysteinBridgesThreshold': thr_cys, 'ApplyRubberBand': thr_elastic}


def install(rec):
    from vermouth.processors.processor import Processor
    from vermouth.system import System
    wrapped = []
    for cls in [Processor] + all_subclasses(Processor):
        if 'run_system' not in cls.__dict__:
            continue
        orig = cls.__dict__['run_system']

        def make(orig):
            def run_system(self, system, *args, **kwargs):
                outer = rec.depth == 0
                if outer:
                    hook = PRE_HOOKS.get(type(self).__name__)
                    if hook is not None:
                        try:
                            rec.thr.extend(hook(self, system, rec.probe) if hook is thr_elastic else hook(self, system))
                        except Exception:      # noqa - reported as a machinery problem by the driver
                            rec.errors.append('threshold hook %s: %s' % (type(self).__name__, traceback.format_exc()[-600:]))
                rec.depth += 1
                try:
                    result = orig(self, system, *args, **kwargs)
                finally:
                    rec.depth -= 1
                if outer:
                    try:
                        rec.record(type(self).__name__, result if isinstance(result, System) else system)
                    except Exception:          # noqa
                        rec.errors.append('abstraction after %s: %s' % (type(self).__name__, traceback.format_exc()[-600:]))
                return result
            return run_system
        setattr(cls, 'run_system', make(orig))
        wrapped.append(cls.__name__)
    return wrapped


# ----------------------------------------------------------------------------------------------------- files (as c11.py)
def num(tok):
    try:
        v = float(tok)
    except ValueError:
        return {'k': 's', 's': tok, 'n': 0}
    if abs(v) > 2e5:
        return {'k': 's', 's': tok, 'n': 0}
    return {'k': 'n', 's': '', 'n': int(round(v * 10000))}


def abstract_files(root):
    out = {'ok': True, 'top': [], 'inters': [], 'coords': []}
    itps = sorted(f for f in os.listdir(root) if f.endswith('.itp'))
    for f in itps:
        recs = indep_readers.read_itp(open(os.path.join(root, f)).read())['records']
        sec = ''
        for r in recs:
            if r['k'] == 'section':
                sec = r['s']
            elif r['k'] == 'atom':
                p = r['p'] + [''] * 7
                out['top'].append({'type': p[0], 'resid': p[1], 'resname': p[2], 'name': p[3], 'cg': p[4], 'charge': p[5]})
            elif r['k'] == 'inter':
                out['inters'].append({'file': f, 'sec': f + ':' + sec, 'atoms': [int(a) for a in r['a']], 'params': [num(t) for t in r['p']]})
            elif r['k'] in ('ifdef', 'ifndef', 'else', 'endif'):
                out['inters'].append({'file': f, 'sec': f + ':' + sec + ':' + r['k'], 'atoms': [],
                                      'params': [{'k': 's', 's': r.get('s', ''), 'n': 0}]})
    # the system topology: the molecule-type files it includes and the molecules it lists, each with its POSITION (the position
    # is the 'atom', so the order is compared as well)
    top_path = os.path.join(root, 'topol.top')
    if os.path.exists(top_path):
        top = indep_readers.read_top(open(top_path).read())
        for k, name in enumerate(top['includes'], 1):
            out['inters'].append({'file': 'topol.top', 'sec': 'topol.top:include', 'atoms': [k], 'params': [{'k': 's', 's': name, 'n': 0}]})
        for k, (name, count) in enumerate(top['molecules'], 1):
            out['inters'].append({'file': 'topol.top', 'sec': 'topol.top:molecules', 'atoms': [k],
                                  'params': [{'k': 's', 's': name, 'n': 0}, {'k': 'n', 's': '', 'n': int(count)}]})
    pdb = indep_readers.read_pdb(open(os.path.join(root, 'cg.pdb')).read())
    for mol in pdb['molecules']:
        for a in mol:
            out['coords'].append([int(round(float(a['x']) * 1000)), int(round(float(a['y']) * 1000)), int(round(float(a['z']) * 1000))])
    return out


EMPTY_FILES = {'ok': False, 'top': [], 'inters': [], 'coords': []}


def run_stages(job):
    """job = (pdb text, options, motion, label, scratch dir).  Executed in a forked worker (one task per process)."""
    text, options, motion, label, scratch = job
    root = tempfile.mkdtemp(prefix='c11st_', dir=scratch)
    cwd, argv0 = os.getcwd(), list(sys.argv)
    log = io.StringIO()
    rec = Recorder(motion)
    out = {'ok': False, 'label': label, 'names': [], 'idx': [], 'files': EMPTY_FILES, 'thr': [], 'final': [], 'stderr': '', 'harness_error': ''}
    for c in COMPONENTS:
        out[c] = []
    try:
        os.chdir(root)
        with open('in.pdb', 'w') as fh:
            fh.write(text)
        with contextlib.redirect_stderr(log), contextlib.redirect_stdout(log):
            cli = load_cli()
        use_preloaded(cli)
        out['wrapped'] = install(rec)
        sys.argv = ['martinize2', '-f', 'in.pdb', '-x', 'cg.pdb', '-o', 'topol.top', '-maxwarn', '1000'] + list(options)
        rc = 0
        with contextlib.redirect_stderr(log), contextlib.redirect_stdout(log):
            try:
                cli.entry()
            except SystemExit as exc:
                rc = exc.code if isinstance(exc.code, int) else (0 if exc.code is None else 1)
            except Exception:      # noqa - a presentation the real pipeline refuses
                rc = 1
                log.write(traceback.format_exc()[-800:])
        out['names'], out['idx'] = rec.names, rec.idx
        for c in COMPONENTS:
            out[c] = rec.tables[c]
        out['thr'], out['final'], out['probe'] = rec.thr, rec.final, rec.probe
        if rec.errors:
            out['harness_error'] = '; '.join(rec.errors)[:1500]
        if rc == 0 and os.path.exists('cg.pdb'):
            out['files'] = abstract_files(root)
            out['ok'] = True
        else:
            out['stderr'] = log.getvalue()[-600:]
        return out
    except Exception:          # noqa
        out['harness_error'] = traceback.format_exc()[-1500:]
        return out
    finally:
        sys.argv = argv0
        os.chdir(cwd)
        shutil.rmtree(root, ignore_errors=True)


def file_admissions(thr, runs):
    """Translate the items on a threshold into ITP terms: [file, A, B, two] - a differing interaction line of `file` is
    admissible iff it involves an atom index of A and one of B (and has exactly two atoms if `two`)."""
    out = []
    for t in thr:
        for run in runs:
            for mol in run['final']:
                ia = [i + 1 for i, k in enumerate(mol['keys']) if (k == t['ka'] if t['kind'] == 'elastic' else k[:3] == t['ra'])]
                ib = [i + 1 for i, k in enumerate(mol['keys']) if (k == t['kb'] if t['kind'] == 'elastic' else k[:3] == t['rb'])]
                if ia and ib:
                    item = {'file': mol['moltype'] + '.itp', 'A': ia, 'B': ib, 'two': t['kind'] == 'elastic'}
                    if item not in out:
                        out.append(item)
    return out
