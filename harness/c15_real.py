"""C15, real command line: bin/martinize2 entry() with -elastic, judged by TLC from the WRITTEN files (spec/ElasticFiles.tla).

Every run executes the unmodified entry() of /repo/bin/martinize2 in a process forked for that run alone (patched sys.argv, scratch
working directory; the shipped force fields / mappings are parsed once per worker with the two functions entry() itself calls).
After entry() returned, the files are read by harness/indep_readers.py (written from the format descriptions, nothing from vermouth):
  topol.top      [ molecules ]: the molecule instances, in order
  <name>.itp     [ atoms ] and the lines under the comment "Rubber band" of [ bonds ] (how vermouth marks the network: the
                 interaction group is written as a comment line in front of its lines; no #ifdef, no macro)
  cg.pdb         chain and coordinates of every particle (thousandths of an Angstrom, exactly the printed digits), TER blocks,
                 CONECT = bonds of the molecules (the residue graph is their quotient)
What the harness adds from its own knowledge of the structure it wrote: for every written backbone bead the residue of the input it
belongs to (the bead lies within 2 A of exactly one C-alpha; the beads that follow it up to the next backbone bead are its side chain),
hence the input number (`old`, what -eunit a:b refers to), the chain segment, and which segments a disulfide bridge joins.

Units handed to TLC: lengths in 0.001 A (mA); written bond length in 10^-5 nm; constants in 10^-6 kJ/mol/nm^2.
Tolerance convention: TOL = 2 mA band around the cut-off (two positions printed to 0.001 A each: distance known to sqrt(3) mA);
with a decay the harness evaluates base*exp(-a (d-lower)^p) with math.exp at both ends of [d-TOL, d+TOL] (and at d = lower when
inside) and hands TLC the interval widened by 1e-5; cap, minimum force, cut-off, separation, domain, selection are decided by TLC.
Pairs inside a band may go either way and are counted ("free").

Families (plan()): cli-default / cli-unit (molecule, all, chain, regions incl. shared hinge, nested, overlapping, reversed) / cli-decay
(even / odd power, distances below the lower bound) / cli-sel (-eb) / cli-sep (-ermd 0..5 on ring-closing bridges and chain breaks) /
cli-merge / cli-copies (identical chains share a molecule type, a stretched copy does not) / cli-number (numbered from 5, insertion
codes, numbers that restart on a second segment of the same chain label) / cli-ff (martini22, elnedyn22 with and without -elastic) /
cli-off (no request) / cli-force (minimum force equal to the undecayed constant: nothing written) / cli-nan (a selected bead without coordinates) / cli-thr (a second run with the cut-off, or the minimum force,
placed just inside / outside one pair)."""
import contextlib
import importlib.machinery
import importlib.util
import io
import math
import os
import pickle
import random
import shutil
import sys
import tempfile
import traceback

from . import indep_readers
from .common import REPO

TESTS = os.path.join(REPO, 'vermouth', 'tests', 'data', 'integration_tests')
SOURCES = {'S': ('tier-0/mini-protein1_betasheet/aa.pdb', 'A'), 'H': ('tier-0/mini-protein2_helix/aa.pdb', 'A'),
           'W': ('tier-0/mini-protein3_trp-cage/aa.pdb', 'A'), 'I': ('tier-1/3i40/3i40.pdb', 'A'), 'J': ('tier-1/3i40/3i40.pdb', 'B'),
           'U': ('tier-1/1UBQ/aa.pdb', 'A'), 'G': ('tier-1/6LFO_gap/6LFO_gap.pdb', 'R')}
TOL = 2                     # mA
MICRO = 1000000
SAT = 2000000000
MISSING = -99999
DEFAULT_RMD = 2             # ApplyRubberBand: "res_min_dist ... taken from the force field" variable elastic_network_res_min_dist, else 2


# --------------------------------------------------------------------------------------------------- input structures
_SRC_CACHE = {}


def _source(code):
    """Atoms of one chain of a shipped test structure; a lower-case g is the first three segments of 6LFO_gap."""
    if code not in _SRC_CACHE:
        path, chain = SOURCES[code.upper()]
        atoms = []
        with open(os.path.join(TESTS, path)) as fh:
            for line in fh:
                if not line.startswith('ATOM'):
                    continue
                line = line.rstrip('\n').ljust(80)
                if line[21] != chain or line[16] not in ' A':
                    continue
                atoms.append({'name': line[12:16], 'resname': line[17:20], 'resid': int(line[22:26]),
                              'xyz': [float(line[30:38]), float(line[38:46]), float(line[46:54])], 'tail': line[54:].rstrip()})
        if code == 'g':
            atoms = [a for a in atoms if a['resid'] <= 141]
        _SRC_CACHE[code] = atoms
    return _SRC_CACHE[code]


def _dist(p, q):
    return math.sqrt((p[0] - q[0]) ** 2 + (p[1] - q[1]) ** 2 + (p[2] - q[2]) ** 2)


def _min_dist(a, b):
    best = 1e9
    for p in a:
        for q in b:
            d = (p[0] - q[0]) ** 2 + (p[1] - q[1]) ** 2 + (p[2] - q[2]) ** 2
            if d < best:
                best = d
    return math.sqrt(best)


# layout: list of chains [source, label, numbering, placement]
#   numbering: {'first': n}            the chain is renumbered to start at n (gaps of the source are kept)
#              {'icode': k}            in addition residues k, k+1, k+2 (0-based position) share the number of residue k and carry the
#                                      insertion codes ' ', 'A', 'B'; the following numbers move down by two
#   placement: None (coordinates of the source: 3i40 A and B stay the bridged complex) | [direction] | [direction, stretch]
LAYOUTS = {
    'S': [['S', 'A', {}, None]],
    'W': [['W', 'A', {}, None]],
    'H': [['H', 'A', {}, None]],
    'S5': [['S', 'A', {'first': 5}, None]],
    'Si': [['S', 'A', {'first': 3, 'icode': 9}, None]],
    'IJ': [['I', 'A', {}, None], ['J', 'B', {}, None]],
    'IJ7': [['I', 'A', {}, None], ['J', 'B', {'first': 7}, None]],
    'SW': [['S', 'A', {}, None], ['W', 'B', {}, [[1, 0, 0]]]],
    'SWaa': [['S', 'A', {}, None], ['W', 'A', {}, [[0, 1, 0]]]],          # numbers restart on a second segment of chain A
    'SS': [['S', 'A', {}, None], ['S', 'B', {}, [[0, 0, 1]]]],            # identical copies
    'Ss': [['S', 'A', {}, None], ['S', 'B', {}, [[0, 0, 1], 1.08]]],      # the copy is stretched by 8 % along z
    'WW': [['W', 'A', {}, None], ['W', 'B', {}, [[0, 0, 1]]]],            # identical copies without a bridge
    'Ww': [['W', 'A', {}, None], ['W', 'B', {}, [[0, 0, 1], 1.08]]],      # same topology before the network, other conformation
    'WsW': [['W', 'A', {}, None], ['S', 'B', {'first': 11}, [[1, 0, 0]]], ['W', 'C', {}, [[0, 1, 0]]]],
    'IJW': [['I', 'A', {}, None], ['J', 'B', {}, None], ['W', 'C', {'first': 5}, [[1, 0, 0]]]],
    'g': [['g', 'R', {}, None]],                                           # 6LFO_gap, residues 36-141: three segments
    'G': [['G', 'R', {}, None]],                                           # 6LFO_gap: six segments, last numbers 921-923
    'U': [['U', 'A', {}, None]],
}
_LAYOUT_CACHE = {}


def _renumber(atoms, numbering):
    """-> list of (number, insertion code) per atom."""
    order = []
    for a in atoms:
        if not order or order[-1] != a['resid']:
            order.append(a['resid'])
    first = numbering.get('first', order[0])
    new = {r: [r - order[0] + first, ' '] for r in order}
    k = numbering.get('icode')
    if k is not None:
        base = new[order[k]][0]
        for pos, r in enumerate(order):
            if k <= pos <= k + 2:
                new[r] = [base, ' AB'[pos - k]]
            elif pos > k + 2:
                new[r][0] -= 2
    return [tuple(new[a['resid']]) for a in atoms]


def build_layout(name):
    """-> (pdb text, residues, segs, links).  residues: [{'chain','old','icode','resname','ca','seg','names'}] in file order;
    segs: chain label per bonded segment; links: pairs of segments (1-based) joined by a disulfide bridge."""
    if name in _LAYOUT_CACHE:
        return _LAYOUT_CACHE[name]
    heavy = ('CA', 'C', 'N', 'O', 'CB', 'CG', 'SG')
    placed, everything, core = [], [], []
    for code, label, numbering, placement in LAYOUTS[name]:
        atoms = _source(code)
        xyzs = [list(a['xyz']) for a in atoms]
        if placement is not None:
            direction = placement[0]
            stretch = placement[1] if len(placement) > 1 else 1.0
            xyzs = [[p[0], p[1], p[2] * stretch] for p in xyzs]
            norm = math.sqrt(sum(x * x for x in direction))
            unit = [x / norm for x in direction]
            mine = [p for p, a in zip(xyzs, atoms) if a['name'].strip() in heavy]
            shift = [0.0, 0.0, 0.0]
            for t in range(4, 160):
                shift = [round(u * t, 3) for u in unit]
                if _min_dist([[p[k] + shift[k] for k in range(3)] for p in mine], core) < 4.6:
                    continue
                if _min_dist([[p[k] + shift[k] for k in range(3)] for p in xyzs], everything) >= 3.8:
                    break
            xyzs = [[round(p[k] + shift[k], 3) for k in range(3)] for p in xyzs]
        placed.append((atoms, xyzs, label, _renumber(atoms, numbering)))
        core += [p for p, a in zip(xyzs, atoms) if a['name'].strip() in heavy]
        everything += xyzs
    lines = ['CRYST1  500.000  500.000  500.000  90.00  90.00  90.00 P 1           1']
    residues, segs, serial = [], [], 1
    for atoms, xyzs, label, numbers in placed:
        prev_c = None
        last_key = None
        for a, xyz, (num, icode) in zip(atoms, xyzs, numbers):
            key = (a['resid'],)
            if key != last_key:
                last_key = key
                residues.append({'chain': label, 'old': num, 'icode': icode, 'resname': a['resname'].strip(), 'ca': None, 'names': [],
                                 'n': None, 'c': None, 'seg': None, 'first_of_chain': prev_c is None})
            r = residues[-1]
            nm = a['name'].strip()
            r['names'].append(nm)
            if nm == 'CA':
                r['ca'] = xyz
            elif nm == 'N':
                r['n'] = xyz
            elif nm == 'C':
                r['c'] = xyz
            elif nm == 'SG':
                r['sg'] = xyz
            prev_c = True
            lines.append('ATOM  %5d %4s %3s %1s%4d%1s   %8.3f%8.3f%8.3f%s' % (serial, a['name'], a['resname'], label, num, icode,
                                                                              xyz[0], xyz[1], xyz[2], a['tail']))
            serial += 1
        lines.append('TER')
        serial += 1
    lines.append('END')
    # bonded segments: a new one starts with every chain and wherever the peptide bond C(i)-N(i+1) is missing
    for i, r in enumerate(residues):
        if r['first_of_chain'] or residues[i - 1]['c'] is None or r['n'] is None or _dist(residues[i - 1]['c'], r['n']) > 2.0:
            segs.append(r['chain'])
        r['seg'] = len(segs)
    links = set()
    cys = [r for r in residues if 'sg' in r]
    for i, r in enumerate(cys):
        for q in cys[i + 1:]:
            if r['seg'] != q['seg'] and _dist(r['sg'], q['sg']) < 2.5:
                links.add((r['seg'], q['seg']))
    out = ('\n'.join(lines) + '\n', residues, segs, sorted(links))
    _LAYOUT_CACHE[name] = out
    return out


def drop_side_chain(text, chain, number, keep=('N', 'CA', 'C', 'O', 'CB', 'CG', 'H', 'HA')):
    """The input with the end of one side chain removed (the beads made of the missing atoms have no coordinates)."""
    out = []
    for line in text.split('\n'):
        if line.startswith('ATOM') and line[21] == chain and int(line[22:26]) == number and line[12:16].strip() not in keep:
            continue
        out.append(line)
    return '\n'.join(out)


# ------------------------------------------------------------------------------------------------- running entry()
_PRE = {}


def preload():
    """Parse the shipped force fields and mappings ONCE per worker, with the functions entry() itself calls."""
    if _PRE:
        return
    from pathlib import Path
    import vermouth.forcefield
    from vermouth import DATA_PATH
    from vermouth.map_input import read_mapping_directory
    ffs = vermouth.forcefield.find_force_fields(Path(DATA_PATH) / 'force_fields')
    _PRE.update(ff_dir=Path(DATA_PATH) / 'force_fields', map_dir=Path(DATA_PATH) / 'mappings', ffs=ffs,
                maps=read_mapping_directory(Path(DATA_PATH) / 'mappings', ffs))


def ff_fallback_rmd(ff):
    """What ApplyRubberBand documents for an absent -ermd: the force field variable `elastic_network_res_min_dist`, else 2."""
    preload()
    return int(_PRE['ffs'][ff].variables.get('elastic_network_res_min_dist', DEFAULT_RMD))


def _use_preloaded(cli):
    if not _PRE:
        return
    import vermouth.forcefield
    real_find, real_read = vermouth.forcefield.find_force_fields, cli.read_mapping_directory

    def find_force_fields(directory, force_fields=None):
        if force_fields is None and directory == _PRE['ff_dir']:
            return _PRE['ffs']
        return real_find(directory, force_fields)

    def read_mapping_directory(directory, force_fields):
        if directory == _PRE['map_dir'] and force_fields is _PRE['ffs']:
            return _PRE['maps']
        return real_read(directory, force_fields)

    vermouth.forcefield.find_force_fields = find_force_fields
    cli.read_mapping_directory = read_mapping_directory


def load_cli():
    loader = importlib.machinery.SourceFileLoader('martinize2_cli_verif_c15', os.path.join(REPO, 'bin', 'martinize2'))
    spec = importlib.util.spec_from_loader(loader.name, loader)
    mod = importlib.util.module_from_spec(spec)
    loader.exec_module(mod)
    return mod


def in_fork(fn, *args):
    """Run fn(*args) in a process forked for this call alone; the result comes back pickled through a file."""
    fd, path = tempfile.mkstemp(prefix='c15fork_')
    os.close(fd)
    pid = os.fork()
    if pid == 0:
        code = 0
        try:
            res = fn(*args)
            with open(path, 'wb') as fh:
                pickle.dump(res, fh)
        except BaseException:       # noqa
            with open(path, 'wb') as fh:
                pickle.dump({'harness_error': traceback.format_exc()[-2000:]}, fh)
            code = 1
        finally:
            os._exit(code)
    try:
        os.waitpid(pid, 0)
        with open(path, 'rb') as fh:
            return pickle.load(fh)
    except Exception:               # noqa
        return {'harness_error': 'forked run left no result: ' + traceback.format_exc()[-500:]}
    finally:
        with contextlib.suppress(OSError):
            os.remove(path)


def _entry_run(workdir, argv):
    os.chdir(workdir)
    log = io.StringIO()
    with contextlib.redirect_stderr(log), contextlib.redirect_stdout(log):
        cli = load_cli()
    _use_preloaded(cli)
    rec = {'rc': 0, 'exc': '', 'argv': list(argv)}
    sys.argv = ['martinize2'] + list(argv)
    with contextlib.redirect_stderr(log), contextlib.redirect_stdout(log):
        try:
            cli.entry()
        except SystemExit as exc:
            rec['rc'] = exc.code if isinstance(exc.code, int) else (0 if exc.code is None else 1)
        except Exception as exc:       # noqa
            rec['rc'] = -1
            rec['exc'] = repr(exc)[:300] + ' | ' + traceback.format_exc()[-600:]
    text = log.getvalue()
    rec['nanwarn'] = 'nan coordinates' in text
    rec['log'] = text[-1500:]
    rec['files'] = {}
    for name in sorted(os.listdir(workdir)):
        if os.path.isfile(name) and not name.startswith('in.') and os.path.getsize(name) < 8_000_000:
            with open(name, errors='replace') as fh:
                rec['files'][name] = fh.read()
    return rec


def run_entry(workdir, argv):
    os.makedirs(workdir, exist_ok=True)
    return in_fork(_entry_run, workdir, argv)


# -------------------------------------------------------------------------------------------- reading the written files
def _num(tok, scale, limit=2e9):
    try:
        v = float(tok) * scale
    except (TypeError, ValueError):
        return MISSING
    if not math.isfinite(v) or abs(v) > limit:
        return MISSING
    return int(round(v))


def rubber_band_lines(itp):
    """(lines of the group "Rubber band" of [ bonds ] outside any conditional block, number of strays).  The ITP writer puts the
    name of an interaction group as a comment line in front of the group's lines; a group ends at the next comment line,
    section header or preprocessor line."""
    lines, strays = [], 0
    section, group, depth = None, '', 0
    for r in itp['records']:
        k = r['k']
        if k == 'section':
            section, group = r['s'], ''
        elif k in ('ifdef', 'ifndef'):
            depth += 1
            group = ''
        elif k == 'endif':
            depth -= 1
            group = ''
        elif k == 'else':
            group = ''
        elif k == 'comment':
            group = r['s']
            if group.strip().lower() == 'rubber band' and (section != 'bonds' or depth):
                strays += 1
        elif k == 'inter':
            marked = group.strip().lower() == 'rubber band' or 'rubber band' in (r['s'] or '').lower()
            if not marked:
                continue
            if section != 'bonds' or depth or len(r['a']) != 2 or len(r['p']) != 3:
                strays += 1
            else:
                lines.append(r)
        elif k == 'malformed' and group.strip().lower() == 'rubber band':
            strays += 1
    return lines, strays


def project_files(files):
    """The written files as the record spec/ElasticFiles.tla judges (without seg / res / old, see identify).  Nothing is decided here."""
    out = {'ok': False, 'topsizes': [], 'tersizes': [], 'atoms': [], 'edges': [], 'bonds': [], 'strays': 0, 'klo': [], 'khi': [],
           'moltypes': [], 'ftypes': []}
    if 'topol.top' not in files or 'cg.pdb' not in files:
        return out
    top = indep_readers.read_top(files['topol.top'])
    names = [m[0] for m in top['molecules']]
    if any(n + '.itp' not in files for n in names):
        return out
    out['ok'] = True
    out['moltypes'] = [[m[0], m[1]] for m in top['molecules']]
    itps = {}
    for n in set(names):
        itp = indep_readers.read_itp(files[n + '.itp'])
        lines, strays = rubber_band_lines(itp)
        itps[n] = {'atoms': [r for r in itp['records'] if r['k'] == 'atom'], 'rb': lines}
        out['strays'] += strays
    pdb = indep_readers.read_pdb(files['cg.pdb'])
    patoms = [a for m in pdb['molecules'] for a in m]
    out['tersizes'] = [len(m) for m in pdb['molecules']]
    instances = [n for n, count in top['molecules'] for _ in range(count)]
    out['topsizes'] = [len(itps[n]['atoms']) for n in instances]
    index_of_serial = {}
    for i, p in enumerate(patoms, 1):
        index_of_serial[p['serial']] = i
    if out['topsizes'] != out['tersizes']:
        return out
    offset = 0
    ftypes = set()
    for mol, n in enumerate(instances, 1):
        recs = itps[n]['atoms']
        for k, r in enumerate(recs):
            p = patoms[offset + k]
            pos = [_num(p['x'], 1000), _num(p['y'], 1000), _num(p['z'], 1000)]
            nan = MISSING in pos
            out['atoms'].append({'mol': mol, 'chain': p['chain'] or '-', 'name': r['p'][3], 'pos': [0, 0, 0] if nan else pos, 'nan': nan,
                                 'resid': _num(r['p'][1], 1), 'resname': r['p'][2], 'seg': 0, 'res': 0, 'old': MISSING})
        for r in itps[n]['rb']:
            length = _num(r['p'][1], 100000)
            try:
                if abs(float(r['p'][1]) * 1e5 - length) > 1e-6:
                    length = -1                          # not a 5-decimal number
            except ValueError:
                length = -1
            ftypes.add(r['p'][0])
            out['bonds'].append({'a': r['a'][0] + offset, 'b': r['a'][1] + offset, 'len': max(length, -1), 'k': _num(r['p'][2], MICRO),
                                 'ft': r['p'][0]})
        offset += len(recs)
    seen = set()
    for c in pdb['conect']:
        a = index_of_serial.get(str(c[0]))
        for b in c[1:]:
            b = index_of_serial.get(str(b))
            if a and b and a != b:
                seen.add((min(a, b), max(a, b)))
    out['edges'] = [list(e) for e in sorted(seen)]
    out['ftypes'] = sorted(ftypes)
    return out


def identify(fatoms, residues):
    """seg / res / old of every written particle.  A backbone bead ('BB', the first bead of every residue in the written order) lies
    within 2 A of the C-alpha of exactly one residue of the input; the beads up to the next backbone bead belong to the same residue.
    Returns '' or the reason why the identification failed (a binding problem, never a verdict)."""
    used = {}
    current = None
    for i, a in enumerate(fatoms):
        if a['name'] == 'BB':
            if a['nan']:
                return 'backbone bead %d has no coordinates' % (i + 1)
            pos = [c / 1000.0 for c in a['pos']]
            best = sorted((_dist(pos, r['ca']), k) for k, r in enumerate(residues) if r['ca'])[:2]
            if not best or best[0][0] > 2.0 or (len(best) > 1 and best[1][0] < 2.6):
                return 'backbone bead %d has no unique input residue within 2 A (%s)' % (i + 1, best)
            k = best[0][1]
            r = residues[k]
            if k in used or r['chain'] != a['chain']:
                return 'backbone bead %d (%s %s) maps to input residue %s %s %d%s%s' % (
                    i + 1, a['chain'], a['resname'], r['chain'], r['resname'], r['old'], r['icode'], ' again' if k in used else '')
            used[k] = i
            current = (k, a['mol'], a['chain'], a['resid'])
        elif current is None or current[1:] != (a['mol'], a['chain'], a['resid']):
            return 'bead %d (%s) does not follow a backbone bead of its residue' % (i + 1, a['name'])
        k = current[0]
        a['res'], a['seg'], a['old'] = k + 1, residues[k]['seg'], residues[k]['old']
    if len(used) != len(residues):
        return 'written system has %d residues, the input %d' % (len(used), len(residues))
    return ''


# ----------------------------------------------------------------------------------------------------- the request
DEFAULTS = {'ff': 'martini3001', 'flag': True, 'ef': 700.0, 'el': 0.0, 'eu': 0.9, 'ermd': None, 'ea': 0.0, 'ep': 1.0, 'em': 0.0, 'eb': None,
            'unit': 'molecule', 'regions': [], 'merge': [], 'mergeall': False, 'resid': 'mol', 'ss': 'C'}


def fmt(v):
    return repr(float(v)) if not float(v).is_integer() else str(int(v))


def option_args(o):
    args = ['-ff', o['ff']]
    if o['flag']:
        args.append('-elastic')
    for key, flag in (('ef', '-ef'), ('el', '-el'), ('eu', '-eu'), ('ea', '-ea'), ('ep', '-ep'), ('em', '-em')):
        if o[key] != DEFAULTS[key]:
            args += [flag, fmt(o[key])]
    if o['ermd'] is not None:
        args += ['-ermd', str(o['ermd'])]
    if o['eb'] is not None:
        args += ['-eb', ','.join(o['eb'])]
    if o['unit'] == 'regions':
        args += ['-eunit', ','.join('%d:%d' % tuple(r) for r in o['regions'])]
    elif o['unit'] != 'molecule' or o.get('explicit_unit'):
        args += ['-eunit', o['unit']]
    if o['mergeall']:
        args += ['-merge', 'all']
    for s in o['merge']:
        args += ['-merge', ','.join(s)]
    if o['resid'] != 'mol':
        args += ['-resid', o['resid']]
    return args


def request_record(o):
    """The request in the units of the judge."""
    return {'flag': bool(o['flag']), 'ff': o['ff'], 'unit': o['unit'], 'regions': [list(r) for r in o['regions']],
            'rmd': o['ermd'] if o['ermd'] is not None else ff_fallback_rmd(o['ff']),
            'up': int(round(o['eu'] * 10000)), 'base': int(round(o['ef'] * MICRO)), 'minf': int(round(o['em'] * MICRO)),
            'names': list(o['eb']) if o['eb'] is not None else ['BB'], 'decay': bool(o['ea']) and bool(o['ep']),
            'merge': [list(s) for s in o['merge']], 'mergeall': bool(o['mergeall'])}


def decay_interval(o, d_ma):
    """[min, max] of base*exp(-a (d-lower)^p) in 1e-6 units over the distances compatible with the printed coordinates (the one
    rule evaluated in Python: exp and the power), widened by 1e-5, saturated."""
    lo = o['el']
    ds = [max(d_ma - TOL, 0) / 10000.0, (d_ma + TOL) / 10000.0]
    if ds[0] < lo < ds[1]:
        ds.append(lo)
    vals = []
    for d in ds:
        try:
            v = o['ef'] * MICRO * math.exp(-o['ea'] * (d - lo) ** o['ep'])
        except OverflowError:
            v = float(SAT)
        except (ValueError, ZeroDivisionError):
            return None
        if isinstance(v, complex) or not math.isfinite(v):
            return None
        vals.append(min(v, float(SAT)))
    return [max(int(math.floor(min(vals))) - 10, 0), min(int(math.ceil(max(vals))) + 10, SAT)]


def decay_tables(o, fatoms):
    n = len(fatoms)
    klo = [[0] * n for _ in range(n)]
    khi = [[0] * n for _ in range(n)]
    for i in range(n):
        if fatoms[i]['nan']:
            continue
        p = fatoms[i]['pos']
        for j in range(i + 1, n):
            if fatoms[j]['nan'] or fatoms[j]['mol'] != fatoms[i]['mol']:
                continue
            q = fatoms[j]['pos']
            iv = decay_interval(o, math.sqrt((p[0] - q[0]) ** 2 + (p[1] - q[1]) ** 2 + (p[2] - q[2]) ** 2))
            if iv is None:
                return None, None
            klo[i][j] = klo[j][i] = iv[0]
            khi[i][j] = khi[j][i] = iv[1]
    return klo, khi


def secondary(rng, n):
    out = ''
    while len(out) < n:
        out += rng.choice('HECCCT') * rng.randint(4, 9)
    return out[:n]


# ------------------------------------------------------------------------------------------------------- scenarios
def gen_regions(rng, residues, mode):
    """Residue regions in input numbers.  hinge: two regions sharing exactly one residue; nested; overlap; reversed: listed
    high:low; plain."""
    nums = sorted({r['old'] for r in residues})
    lo, hi = nums[0], nums[-1]
    span = hi - lo
    a = lo + rng.randint(0, max(0, span // 4))
    if mode == 'hinge':
        b = a + rng.randint(4, max(5, span // 3))
        c = b + rng.randint(4, max(5, span // 3))
        regs = [[a, b], [b, c]]
    elif mode == 'nested':
        c = a + rng.randint(10, max(11, span // 2))
        regs = [[a, c], [a + 3, c - 3]]
    elif mode == 'overlap':
        b = a + rng.randint(6, max(7, span // 3))
        regs = [[a, b], [b - 3, b + rng.randint(4, 9)]]
    elif mode == 'reversed':
        b = a + rng.randint(5, max(6, span // 2))
        regs = [[b, a], [b + 2, b + 2 + rng.randint(3, 8)]]
    else:
        b = a + rng.randint(5, max(6, span // 2))
        regs = [[a, b]]
        if rng.random() < 0.5:
            regs.append([b + 3, b + 3 + rng.randint(3, 9)])
    if rng.random() < 0.5:
        regs.reverse()                              # regions listed in both orders
    return regs


def make_opts(rng, lay, fixed=None):
    _, residues, segs, _ = build_layout(lay)
    labels = sorted(set(segs))
    o = dict(DEFAULTS)
    o['ff'] = rng.choice(['martini3001'] * 5 + ['martini22'] * 2 + ['elnedyn22'])
    o['ef'] = rng.choice([700.0, 700.0, 500.0, 1000.0, 350.5])
    o['eu'] = rng.choice([0.9, 0.9, 0.7, 1.1, 0.55, 1.4])
    o['ermd'] = rng.choice([None, None, 0, 1, 2, 3, 4, 5])
    if rng.random() < 0.45:
        o['ea'] = rng.choice([0.5, 2.5, 6.0])
        o['ep'] = rng.choice([1.0, 2.0, 3.0, 4.0, 6.0, 0.5, 1.5])
        o['el'] = rng.choice([0.0, 0.3, 0.5, 0.8]) if float(o['ep']).is_integer() else 0.0
        o['em'] = rng.choice([0.0, round(o['ef'] * 0.3, 1), round(o['ef'] * 0.8, 1), o['ef']])
    else:
        o['el'] = rng.choice([0.0, 0.0, 0.5])
        o['ep'] = rng.choice([1.0, 1.0, 2.0])
        o['em'] = rng.choice([0.0, 0.0, 0.0, 100.0, o['ef'], o['ef'] + 1])
    o['eb'] = rng.choice([None, None, None, ['BB', 'SC1'], ['SC1'], ['SC1', 'SC2'], ['BB', 'SC2', 'SC3']])
    unit = rng.choice(['molecule', 'molecule', 'all', 'chain', 'regions', 'regions'])
    o['unit'] = unit
    o['explicit_unit'] = rng.random() < 0.5
    if unit == 'regions':
        o['regions'] = gen_regions(rng, residues, rng.choice(['hinge', 'nested', 'overlap', 'reversed', 'plain']))
    if len(segs) > 1 and rng.random() < 0.5:
        if rng.random() < 0.3:
            o['mergeall'] = True
        else:
            k = rng.randint(1, min(3, len(labels)))
            o['merge'] = [rng.sample(labels, k)]
            rest = [x for x in labels if x not in o['merge'][0]]
            if len(rest) >= 2 and rng.random() < 0.4:
                o['merge'].append(rest[:2])
    o['resid'] = rng.choice(['mol', 'mol', 'input'])
    o['ss'] = secondary(rng, len(residues)) if o['ff'] != 'martini3001' or rng.random() < 0.3 else 'C' * len(residues)
    o.update(fixed or {})
    if o['ss'] == 'C':                                   # pinned: every residue a coil (copies of a chain then share their topology)
        o['ss'] = 'C' * len(residues)
    if o['unit'] != 'regions':
        o['regions'] = []
    return o


_THR_COUNT = {'cut': 0, 'force': 0}


def make_scenario(rng, fam, lay, fixed=None, thr=None, nan=None):
    sc = {'cli': True, 'fam': fam, 'layout': lay, 'opts': make_opts(rng, lay, fixed), 'thr': thr, 'nan': nan,
          'pick': rng.randrange(1 << 30)}
    if thr:
        # whether the second run aims just inside or just outside alternates per kind of threshold, whatever the seed: the quick
        # tier has one scenario of each kind and needs one run on each side (cut: inside, force: outside, then the other way)
        _THR_COUNT[thr] += 1
        sc['inside'] = (_THR_COUNT[thr] % 2 == 1) == (thr == 'cut')
    return sc


QUICK_PLAN = [
    # family, layout, pinned options, thr ('cut' | 'force' | None), nan (chain, input number of the residue that loses its side chain)
    ('cli-thr', 'IJ', {'ff': 'martini3001', 'flag': True, 'unit': 'chain', 'ea': 2.5, 'ep': 3.0, 'el': 0.5, 'em': 100.0, 'eb': ['BB', 'SC1'],
                       'eu': 0.9, 'merge': [], 'mergeall': False}, 'force', None),
    ('cli-thr', 'S', {'ff': 'martini3001', 'flag': True, 'unit': 'molecule', 'ea': 0.0, 'eb': None, 'ermd': None, 'em': 0.0}, 'cut', None),
    ('cli-unit', 'IJ', {'flag': True, 'unit': 'regions', 'regions': [[3, 8], [8, 14]], 'resid': 'input', 'eb': None, 'em': 0.0, 'ea': 0.0,
                        'ermd': 1, 'eu': 1.1, 'merge': [], 'mergeall': False}, None, None),
    ('cli-unit', 'SW', {'ff': 'martini3001', 'flag': True, 'unit': 'all', 'eb': None, 'em': 0.0, 'ea': 0.0, 'eu': 1.1, 'merge': [],
                        'mergeall': False}, None, None),
    ('cli-merge', 'SWaa', {'flag': True, 'unit': 'regions', 'regions': [[12, 4], [10, 18]], 'merge': [['A']], 'mergeall': False, 'eb': None,
                           'em': 0.0, 'ea': 0.0, 'eu': 1.1, 'ermd': 2}, None, None),
    ('cli-merge', 'IJW', {'ff': 'martini3001', 'flag': True, 'unit': 'chain', 'merge': [['A', 'C']], 'mergeall': False, 'eb': None, 'em': 0.0,
                          'ea': 0.0, 'eu': 1.1}, None, None),
    ('cli-copies', 'WW', {'flag': True, 'unit': 'molecule', 'merge': [], 'mergeall': False, 'em': 0.0, 'ss': 'C'}, None, None),
    # the same chain twice in two conformations: one molecule type before the network is built, two networks (D18); martini22 has no
    # geometry-derived parameters of its own (martini3001 writes measured SC-BB-BB-SC dihedrals)
    ('cli-copies', 'Ww', {'ff': 'martini22', 'flag': True, 'unit': 'molecule', 'merge': [], 'mergeall': False, 'em': 0.0, 'eb': None, 'eu': 0.9, 'ss': 'C'}, None, None),
    ('cli-ff', 'W', {'ff': 'elnedyn22', 'flag': False, 'unit': 'molecule', 'em': 0.0, 'eb': None}, None, None),
    ('cli-ff', 'IJ7', {'ff': 'martini22', 'flag': True, 'unit': 'molecule', 'em': 0.0, 'ea': 0.0, 'eb': None, 'merge': [], 'mergeall': False},
     None, None),
    ('cli-off', 'W', {'ff': 'martini3001', 'flag': False}, None, None),
    # the constant EQUALS the minimum force (no decay): "exceeds" is strict, nothing is written
    ('cli-force', 'W', {'ff': 'martini3001', 'flag': True, 'unit': 'molecule', 'ef': 500.0, 'em': 500.0, 'ea': 0.0, 'eb': None, 'eu': 0.9}, None, None),
    ('cli-sep', 'g', {'ff': 'martini3001', 'flag': True, 'unit': 'all', 'resid': 'input', 'ermd': 4, 'eb': None, 'em': 0.0, 'ea': 0.0,
                      'eu': 0.9, 'merge': [], 'mergeall': False}, None, None),
    ('cli-number', 'Si', {'flag': True, 'unit': 'regions', 'regions': [[11, 14], [3, 9]], 'eb': None, 'em': 0.0, 'ea': 0.0, 'eu': 1.1,
                          'ermd': 0}, None, None),
    ('cli-decay', 'H', {'ff': 'martini3001', 'flag': True, 'unit': 'molecule', 'ea': 6.0, 'ep': 2.0, 'el': 0.8, 'em': 350.0, 'ef': 700.0,
                        'eu': 1.4, 'eb': None}, None, None),
    ('cli-decay', 'H', {'ff': 'martini3001', 'flag': True, 'unit': 'molecule', 'ea': 6.0, 'ep': 3.0, 'el': 0.8, 'em': 350.0, 'ef': 700.0,
                        'eu': 1.4, 'eb': None}, None, None),
    ('cli-nan', 'SW', {'ff': 'martini3001', 'flag': True, 'unit': 'molecule', 'eb': ['BB', 'SC2'], 'em': 0.0, 'ea': 0.0, 'merge': [],
                       'mergeall': False}, None, ['A', 2]),
]


def plan(tier, seed):
    rng = random.Random(seed * 7919 + 15)
    todo = list(QUICK_PLAN)
    if tier != 'quick':
        lays = ['S', 'W', 'H', 'S5', 'Si', 'IJ', 'IJ7', 'SW', 'SWaa', 'SS', 'Ss', 'WW', 'Ww', 'WsW', 'IJW', 'g']
        for k in range(168):
            todo.append(('cli-random', lays[k % len(lays)], {}, None, None))
        for k in range(24):
            todo.append(('cli-thr', ['IJ', 'S', 'SW', 'H', 'IJW', 'Si'][k % 6], {'flag': True, 'em': 0.0} if k % 2 else
                         {'flag': True, 'ea': 2.5, 'ep': [2.0, 3.0][k % 4 // 2], 'el': 0.5, 'em': 100.0}, ['cut', 'force'][(k + 1) % 2], None))
        for k in range(6):
            todo.append(('cli-nan', ['SW', 'S', 'IJW'][k % 3], {'flag': True, 'eb': [['BB', 'SC2'], ['SC2'], None][k % 3], 'unit': ['molecule', 'all'][k % 2],
                                                                   'merge': [], 'mergeall': False}, None, ['A', 2]))
        todo.append(('cli-big', 'G', {'ff': 'martini3001', 'flag': True, 'unit': 'all', 'resid': 'input', 'ef': 500.0, 'eb': None, 'ea': 0.0,
                                      'em': 0.0, 'ermd': None, 'eu': 0.9, 'merge': [], 'mergeall': False, 'el': 0.0}, None, None))
        todo.append(('cli-big', 'G', {'ff': 'martini3001', 'flag': True, 'unit': 'regions', 'regions': [[150, 230], [60, 110], [230, 300]],
                                      'mergeall': True, 'merge': [], 'eb': None, 'ea': 2.5, 'ep': 2.0, 'el': 0.5, 'em': 200.0, 'ermd': 3, 'eu': 1.0},
                     None, None))
        todo.append(('cli-big', 'U', {'ff': 'elnedyn22', 'flag': False, 'unit': 'molecule', 'eb': None, 'ea': 0.0, 'em': 0.0}, None, None))
        todo.append(('cli-big', 'U', {'ff': 'martini22', 'flag': True, 'unit': 'regions', 'regions': [[1, 40], [30, 76]], 'eb': ['BB', 'SC1'],
                                      'ea': 6.0, 'ep': 6.0, 'el': 0.3, 'em': 10.0}, None, None))
    out = [make_scenario(rng, fam, lay, fixed, thr, nan) for fam, lay, fixed, thr, nan in todo]
    out.sort(key=lambda sc: (0 if sc['fam'] == 'cli-big' else 1 if sc['thr'] else 2))      # the long jobs first
    return out


# ------------------------------------------------------------------------------------------------------------- jobs
def _rc(rec):
    return 0 if rec.get('rc') == 0 and not rec.get('exc') else 1


def one_run(sc, opts, work, tag):
    """One run of entry() -> (event, record of the run, binding problem or '')."""
    text, residues, segs, links = build_layout(sc['layout'])
    if sc.get('nan'):
        text = drop_side_chain(text, sc['nan'][0], sc['nan'][1])
    wdir = os.path.join(work, tag)
    os.makedirs(wdir)
    with open(os.path.join(wdir, 'in.pdb'), 'w') as fh:
        fh.write(text)
    argv = ['-f', 'in.pdb', '-x', 'cg.pdb', '-o', 'topol.top', '-ss', opts['ss'], '-maxwarn', '1000'] + option_args(opts)
    rec = run_entry(wdir, argv)
    if rec.get('harness_error'):
        return None, rec, 'harness error in the forked run: ' + rec['harness_error'][-600:]
    f = project_files(rec.get('files', {})) if _rc(rec) == 0 else project_files({})
    why = ''
    if f['ok'] and f['topsizes'] == f['tersizes']:
        why = identify(f['atoms'], residues)
    o = request_record(opts)
    if o['decay'] and f['atoms'] and not why:
        f['klo'], f['khi'] = decay_tables(opts, f['atoms'])
        if f['klo'] is None:
            return None, rec, 'decay undefined for a pair (non-integer power below the lower bound is not generated)'
    if o['up'] + TOL > 26000 or o['base'] >= SAT or o['minf'] >= SAT:
        return None, rec, 'request outside the integer range of the judge'
    atoms = [{k: a[k] for k in ('mol', 'chain', 'name', 'pos', 'nan', 'seg', 'res', 'old')} for a in f['atoms']]
    ev = {'kind': 'clifile', 'fam': sc['fam'], 'tol': TOL, 'rc': _rc(rec), 'nanwarn': bool(rec.get('nanwarn')), 'o': o,
          'inp': {'segs': list(segs), 'links': [list(l) for l in links]},
          'f': {'ok': f['ok'], 'topsizes': f['topsizes'], 'tersizes': f['tersizes'], 'atoms': atoms, 'edges': f['edges'],
                'bonds': [{k: b[k] for k in ('a', 'b', 'len', 'k')} for b in f['bonds']], 'strays': f['strays'],
                'klo': f['klo'], 'khi': f['khi']}}
    info = {'argv': ' '.join(argv[8:]), 'moltypes': f['moltypes'], 'ftypes': f['ftypes'], 'nbonds': len(f['bonds']),
            'log': rec.get('log', '')[-400:] if _rc(rec) else '', 'exc': rec.get('exc', '')}
    return ev, info, why


def sharpen(sc, ev, rng):
    """Options of the second run of a cli-thr scenario: the cut-off (or the minimum force) placed just inside or just outside one pair
    that the first run bonded, using only the written files of the first run.  None when no suitable pair exists."""
    o, f = ev['o'], ev['f']
    bonds = list(f['bonds'])
    rng.shuffle(bonds)
    opts = dict(sc['opts'])
    for b in bonds:
        p, q = f['atoms'][b['a'] - 1]['pos'], f['atoms'][b['b'] - 1]['pos']
        d = math.sqrt(sum((x - y) ** 2 for x, y in zip(p, q)))
        if sc['thr'] == 'cut':
            inside = sc['inside'] if 'inside' in sc else rng.random() < 0.5
            up = int(math.ceil(d)) + TOL + 1 if inside else int(math.floor(d)) - TOL - 1
            if up < 3000:
                continue
            opts['eu'] = up / 10000.0
            return opts, {'pair': [b['a'], b['b']], 'inside': inside}
        if o['decay']:
            lo, hi = f['klo'][b['a'] - 1][b['b'] - 1], f['khi'][b['a'] - 1][b['b'] - 1]
            if hi >= o['base'] or lo <= 20:
                continue
            inside = sc['inside'] if 'inside' in sc else rng.random() < 0.5
            opts['em'] = (lo - 5) / MICRO if inside else (hi + 5) / MICRO
            return opts, {'pair': [b['a'], b['b']], 'inside': inside}
    return None, None


def run_job(job):
    """One scenario = one scratch directory and 1-2 runs of entry(), each in its own fork."""
    sc, scratch = job
    work = tempfile.mkdtemp(prefix='c15cli_', dir=scratch)
    out = {'sc': sc, 'events': [], 'problems': [], 'info': []}
    try:
        ev, info, why = one_run(sc, sc['opts'], work, 'a')
        if why:
            out['problems'].append(why)
        if ev is not None:
            out['events'].append(ev)
            out['info'].append(info)
        if sc.get('thr') and ev is not None and not why and ev['rc'] == 0:
            opts2, aim = sharpen(sc, ev, random.Random(sc['pick']))
            if opts2 is not None:       # (no written pair to aim at: the first run stands alone)
                ev2, info2, why2 = one_run(sc, opts2, work, 'b')
                if why2:
                    out['problems'].append(why2)
                if ev2 is not None:
                    ev2['fam'] = 'cli-thr-' + sc['thr']
                    ev2['aim'] = aim
                    out['events'].append(ev2)
                    out['info'].append(dict(info2, aim=aim))
        return out
    except Exception:       # noqa
        out['problems'].append('harness exception: ' + traceback.format_exc()[-1500:])
        return out
    finally:
        shutil.rmtree(work, ignore_errors=True)


# ------------------------------------------------------------------------------------------------------------ judge
def judge_events(events, timeout=3000):
    """TLC (ElasticFiles) on a list of events -> (distinct, generated, [verdict per event])."""
    from . import tlc
    work = tlc.scratch('c15f_')
    try:
        clean = [{k: v for k, v in e.items() if k not in ('kind', 'aim')} for e in events]
        tf = tlc.write_json(work, 'trace.json', clean)
        light = sum(len(e['f']['atoms']) for e in events) < 1500
        jvm = ('-XX:TieredStopAtLevel=1 ' if light else '') + '-XX:ParallelGCThreads=2 -XX:CICompilerCount=%d' % (1 if light else 2)
        res = tlc.run('ElasticFiles', 'SPECIFICATION Spec\n', dump=True, env={'TRACE_FILE': tf, '_JAVA_OPTIONS': jvm}, workdir=work, workers=1,
                      timeout=timeout)
        if res.violated:
            raise tlc.MachineryError('ElasticFiles violated ' + str(res.violated))
        verdicts = {st['tid']: st['verdict'] for st in res.states() if st['verdict']['v'] != 'pending'}
        if len(verdicts) != len(events):
            raise tlc.MachineryError('ElasticFiles: %d verdicts for %d events: %s' % (len(verdicts), len(events), res.stdout[-800:]))
        return res.distinct, res.generated, [verdicts[i] for i in range(1, len(events) + 1)]
    finally:
        shutil.rmtree(work, ignore_errors=True)


def _work(args):
    """Pool worker: run the scenarios of its share AND judge their events; return summaries only."""
    jobs, scratch = args
    preload()
    outs = [run_job((sc, scratch)) for sc in jobs]
    events = [e for out in outs for e in out['events']]
    problems = [(out['sc']['fam'], out['sc']['layout'], p) for out in outs for p in out['problems']]
    if problems or not events:
        return {'problems': problems, 'rows': [], 'states': 0, 'transitions': 0}
    try:
        dist, gen, verdicts = judge_events(events)
    except Exception as exc:       # noqa
        return {'problems': [('judge', '', repr(exc)[:1500])], 'rows': [], 'states': 0, 'transitions': 0}
    rows, k = [], 0
    for out in outs:
        for e, info in zip(out['events'], out['info']):
            v = verdicts[k]
            k += 1
            row = {'sc': out['sc'], 'fam': e['fam'], 'v': v['v'], 'at': list(v['at']), 'cls': dict(v['cls']), 'info': info, 'rc': e['rc'],
                   'aim': e.get('aim'), 'requested': e['o']['flag'] or e['o']['ff'].startswith('elnedyn'), 'nbonds': len(e['f']['bonds']),
                   'opts': e['o'], 'natoms': len(e['f']['atoms'])}
            if v['v'] != 'ok':
                row['event'] = e if len(e['f']['atoms']) <= 150 else None
            elif out['sc']['fam'] == 'cli-unit' and len(e['f']['atoms']) <= 130:
                row['sample'] = {'request': e['o'], 'input': e['inp'], 'particles': len(e['f']['atoms']), 'written_rubber_band_lines': e['f']['bonds'][:12],
                                 'lines_total': len(e['f']['bonds'])}
            rows.append(row)
    return {'problems': [], 'rows': rows, 'states': dist, 'transitions': gen}


def main(argv):
    """python -m harness.c15_real <tier> <seed> <result file>: all runs of the plan, each pool worker judging its own share."""
    import multiprocessing as mp
    tier, seed, path = argv[0], int(argv[1]), argv[2]
    scenarios = plan(tier, seed)
    for lay in sorted({sc['layout'] for sc in scenarios}):
        build_layout(lay)                               # placement search once, in the parent
    preload()                                           # force fields and mappings parsed once, inherited by the forked workers
    scratch = tempfile.mkdtemp(prefix='c15cli_')
    ncpu = min(16, os.cpu_count() or 1)
    nshares = ncpu if tier == 'quick' else ncpu * 3
    shares = [scenarios[i::nshares] for i in range(nshares)]
    shares = [s for s in shares if s]
    try:
        with mp.Pool(min(ncpu, len(shares))) as pool:
            res = pool.map(_work, [(s, scratch) for s in shares], chunksize=1)
    finally:
        shutil.rmtree(scratch, ignore_errors=True)
    with open(path + '.tmp', 'wb') as fh:
        pickle.dump(res, fh)
    os.replace(path + '.tmp', path)
    return 0


if __name__ == '__main__':
    sys.exit(main(sys.argv[1:]))
