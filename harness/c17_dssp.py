"""C17 extension - the DSSP route, the -ss / -collagen command-line route, and residue identities that do not sort.

spec/DsspFormat.tla   the DSSP output format as read_dssp2 documents it (character level, ReadDecl / ReadOp, concrete lines)
spec/DsspFile.tla     TAB model: files grown line by line from a pool of concrete lines -> replayed into the real read_dssp2
spec/DsspLines.tla    dumps kind -> text of DsspFormat!Line (this driver holds no copy of the lines)
spec/DsspRoute.tla    AnnotateDSSP on a system: one DSSP run per protein molecule with positions, answers read with DsspFormat,
                      classes land on the residues of that molecule, unusable answer = error, Martini translation per molecule;
                      TAB model: systems x answer shapes -> replayed into the real AnnotateDSSP with a SCRIPTED DSSP executable
spec/Trace_Annotate.tla  judges `file`, `dssp` and `cli` events (recorded runs of read_dssp2, AnnotateDSSP, bin/martinize2)

The scripted executable (FAKE_SRC) is a small Python script written into a scratch directory: it answers `--version`
(run_dssp probes it and only distinguishes "is one of SUPPORTED_DSSP_VERSIONS" from "any other x.y.z" = warning, and
"no x.y.z at all" = DSSPError) and `-i <pdb>` with the k-th planned answer (exit status + text), and logs how many atoms
and residues the PDB it was given holds.  It runs (a) as a real subprocess (`executable=<path>`, `martinize2 -dssp <path>`)
and (b) in-process, by replacing the name `subprocess` inside vermouth.dssp.dssp with an object whose run() calls the same
serve() function - used for the exhaustive tables, where two process starts per molecule would cost minutes.
Expected values are TLC's throughout; Python renders nothing but what TLC dumped (DsspLines) or the judge re-reads."""
import contextlib
import io
import json
import math
import multiprocessing as mp
import os
import random
import shutil
import subprocess
import sys
import tempfile

from . import common, tlc

FILE_CFG = 'SPECIFICATION Spec\nINVARIANT OpIsDecl\nINVARIANT OneClassPerResidueLine\nINVARIANT AlphabetIsSupported\n'
ROUTE_CFG = ('SPECIFICATION Spec\nINVARIANT OthersUntouched\nINVARIANT ErrorIffSomeAnswerUnusable\nINVARIANT FailingMoleculeUntouched\n'
             'INVARIANT EveryClassLands\nINVARIANT TranslationKeepsLength\n')
SHAPES = ['exact', 'breaks', 'short', 'shortbrk', 'long', 'badclass', 'nohead', 'fail']
SHAPES_QUICK = ['exact', 'breaks', 'short', 'shortbrk', 'long', 'fail']      # unreadable answers are the file model's business
POOL_QUICK = ['hdr', 'near3', 'table', 'rH', 'rEdec', 'r_', 'rP', 's16', 'brk', 'empty', 'v1', 'hist']
POOL_MORE = ['near2', 'rC', 'brk1']
ROW_POOL = ['rH', 'rE', 'r_', 'rS', 'rH17', 'r_17', 'rEdec', 'rP', 'rC', 'rh', 's16', 's1', 'brk', 'brk1', 'empty', 'table', 'near1']
PROTEIN_NAMES = ['ALA', 'GLY', 'SER', 'THR', 'LYS', 'GLU', 'HSD', 'LYN']
OTHER_NAMES = ['LIG', 'BENZ', 'XYZ', 'POPC']
VERSIONS = ['mkdssp 3.0.0\n', '2.2.1\n', 'DSSP version 2.2.1 (scripted)\n', 'mkdssp version 4.4.10\n']

# ------------------------------------------------------------------------------------------------ scripted DSSP

FAKE_SRC = r'''
import json, os, sys


def serve(argv, here):
    """The scripted DSSP: returns (exit status, stdout, stderr)."""
    with open(os.path.join(here, 'plan.json')) as fh:
        plan = json.load(fh)
    if '--version' in argv:
        return 0, plan['version'], ''
    if '-i' not in argv:
        return 64, '', 'usage: dssp -i file.pdb'
    path = argv[argv.index('-i') + 1]
    cpath = os.path.join(here, 'count')
    k = int(open(cpath).read()) if os.path.exists(cpath) else 0
    with open(cpath, 'w') as fh:
        fh.write(str(k + 1))
    atoms, residues = 0, set()
    with open(path) as fh:
        for line in fh:
            if line.startswith(('ATOM', 'HETATM')):
                atoms += 1
                residues.add((line[21], line[22:27], line[17:21]))
    with open(os.path.join(here, 'seen.jsonl'), 'a') as fh:
        fh.write(json.dumps({'k': k, 'natoms': atoms, 'nres': len(residues)}) + '\n')
    if k >= len(plan['calls']):
        return 70, '', 'no answer planned for run %d' % k
    call = plan['calls'][k]
    # a failing DSSP may well have printed a complete table before it gave up: the exit status alone decides
    return call['status'], call['text'], 'scripted failure' if call['status'] else ''
'''
_ns = {}
exec(FAKE_SRC, _ns)
serve = _ns['serve']


def write_fake(here, calls, version):
    """calls: [{'status': int, 'text': str}].  Returns the path of the executable."""
    with open(os.path.join(here, 'plan.json'), 'w') as fh:
        json.dump({'version': version, 'calls': calls}, fh)
    for name in ('count', 'seen.jsonl'):
        with contextlib.suppress(FileNotFoundError):
            os.remove(os.path.join(here, name))
    exe = os.path.join(here, 'fake_dssp')
    with open(exe, 'w') as fh:
        fh.write('#!%s\n' % sys.executable + FAKE_SRC +
                 "\nif __name__ == '__main__':\n"
                 "    rc, out, err = serve(sys.argv[1:], os.path.dirname(os.path.abspath(__file__)))\n"
                 "    sys.stdout.write(out)\n    sys.stderr.write(err)\n    sys.exit(rc)\n")
    os.chmod(exe, 0o755)
    return exe


def read_seen(here):
    path = os.path.join(here, 'seen.jsonl')
    if not os.path.exists(path):
        return []
    with open(path) as fh:
        rows = [json.loads(line) for line in fh if line.strip()]
    return [{'natoms': r['natoms'], 'nres': r['nres']} for r in sorted(rows, key=lambda r: r['k'])]


class ShimSubprocess:
    """Stands in for the module `subprocess` inside vermouth.dssp.dssp: same serve(), no process start."""
    PIPE = subprocess.PIPE

    def __init__(self, exe):
        self.exe = exe

    def run(self, cmd, stdout=None, stderr=None, check=False, universal_newlines=False, **kwargs):
        if cmd[0] != self.exe:
            raise FileNotFoundError(cmd[0])
        rc, out, err = serve(list(cmd[1:]), os.path.dirname(self.exe))
        if not universal_newlines:
            out, err = out.encode('utf8'), err.encode('utf8')
        return subprocess.CompletedProcess(cmd, rc, out, err)


# ------------------------------------------------------------------------------------------------ residue identities

SCHEMES = ['inc', 'dec', 'restart', 'wrap', 'icode', 'chains', 'gaps']


def identities(nres, scheme, names, rng):
    """Residue identities (chain, resid, insertion_code, resname) of one molecule, all distinct, in RESIDUE ORDER
    (the order of the lowest node key).  Only 'inc' and 'gaps' sort in that order."""
    out = []
    base = rng.choice([1, 5, 120])
    for r in range(nres):
        name = names[r % len(names)]
        if scheme == 'inc':
            out.append(('A', base + r, '', name))
        elif scheme == 'gaps':
            out.append(('A', base + 3 * r, '', name))
        elif scheme == 'dec':
            out.append(('A', base + nres - r, '', name))
        elif scheme == 'restart':          # numbers restart: 1 2 3 1 2 3 with another residue name the second time round
            out.append(('A', r % 3 + 1, '', names[(r // 3) % len(names)]))
        elif scheme == 'wrap':             # ... 9998 9999 0 1 ...
            out.append(('A', (9999 - nres // 2 + r + 1) % 10000, '', name))
        elif scheme == 'icode':            # 52 52A 52B 53 53A ...
            out.append(('A', 52 + r // 3, ['', 'A', 'B'][r % 3], name))
        elif scheme == 'chains':           # merged chains, B listed before A, numbers restart
            first = (nres + 1) // 2
            out.append(('B', r + 1, '', name) if r < first else ('A', r - first + 1, '', name))
    if len(set(out)) != nres:
        return identities(nres, 'inc', names, rng)
    return out


def sorts_in_order(idents):
    return idents == sorted(idents)


# ------------------------------------------------------------------------------------------------ library route

def build_mol(m, rng, scheme=None):
    """Real Molecule for a model molecule {'protein','haspos','nres'}.  Returns (molecule, natoms_with_position)."""
    import numpy as np
    from vermouth.molecule import Molecule
    mol = Molecule()
    nres = m['nres']
    names = list(PROTEIN_NAMES if m['protein'] else OTHER_NAMES)
    rng.shuffle(names)
    if not m['protein'] and rng.random() < 0.5:
        names = names[:1] + ['ALA']          # a molecule with ONE foreign residue among amino acids is not a protein
        if nres == 1:
            names = names[:1]
    idents = identities(nres, scheme or rng.choice(SCHEMES), names, rng)
    if not m['protein'] and all(i[3] in PROTEIN_NAMES for i in idents):
        idents[0] = idents[0][:3] + ('LIG',)
    natoms = [rng.randint(1, 3) for _ in range(nres)]
    keys = sorted(rng.sample(range(0, 60), sum(natoms))) if rng.random() < 0.7 else list(range(sum(natoms)))
    atoms, k, npos = [], 0, 0
    for r, (na, ident) in enumerate(zip(natoms, idents), 1):
        for a in range(na):
            attrs = dict(chain=ident[0], resid=ident[1], insertion_code=ident[2], resname=ident[3],
                         atomname=['N', 'CA', 'C'][a], element=['N', 'C', 'C'][a], residx=r)
            positioned = m['haspos'] and (a == 0 or rng.random() < 0.85)     # every residue keeps a positioned atom
            if positioned:
                attrs['position'] = np.array([rng.uniform(0, 5), rng.uniform(0, 5), rng.uniform(0, 5)])
                npos += 1
            else:
                how = rng.randrange(3)
                if how == 0:
                    attrs['position'] = None
                elif how == 1:
                    attrs['position'] = np.array([np.nan, 0.0, 1.0])
            atoms.append((keys[k], attrs))
            k += 1
    rng.shuffle(atoms)
    for key, attrs in atoms:
        mol.add_node(key, **attrs)
    return mol, npos, idents


def project(mol, nres, attr):
    per = {}
    for _, d in mol.nodes(data=True):
        v = d.get(attr)
        v = '-' if v is None else str(v)
        if d['residx'] in per and per[d['residx']] != v:
            per[d['residx']] = '?'
        per.setdefault(d['residx'], v)
    return [per.get(r, '!') for r in range(1, nres + 1)]


def run_library(mols, calls, rng, how, version=None, scheme=None):
    """Run the REAL AnnotateDSSP (+ AnnotateMartiniSecondaryStructures) on a system built for `mols` with the scripted
    executable answering `calls`.  how: 'exe' (real subprocess) | 'shim' (in-process).  Returns the `dssp` event."""
    from vermouth.system import System
    from vermouth.dssp import dssp as D
    work = tempfile.mkdtemp(prefix='c17dssp_')
    cwd = os.getcwd()
    try:
        os.chdir(work)
        exe = write_fake(work, calls, version or rng.choice(VERSIONS))
        system = System()
        full = []
        nonsorting = False
        for m in mols:
            mol, npos, idents = build_mol(m, rng, scheme)
            nonsorting = nonsorting or (m['protein'] and m['haspos'] and not sorts_in_order(idents))
            system.add_molecule(mol)
            full.append(dict(protein=bool(m['protein']), haspos=bool(m['haspos']), nres=m['nres'], natoms=npos))
        real_sub = D.subprocess
        if how == 'shim':
            D.subprocess = ShimSubprocess(exe)
        err, errtype = False, ''
        try:
            with contextlib.redirect_stderr(io.StringIO()):
                D.AnnotateDSSP(executable=exe).run_system(system)
        except Exception as exc:       # DSSPError (failed run), IOError (unreadable), ValueError (length): all are "an error"
            err, errtype = True, type(exc).__name__
        finally:
            D.subprocess = real_sub
        translate_failed = ''
        if not err:
            try:
                D.AnnotateMartiniSecondaryStructures().run_system(system)
            except Exception as exc:       # nothing in the statement lets the translation of a DSSP answer fail
                translate_failed = type(exc).__name__ + ': ' + str(exc)[:100]
        seen = read_seen(work)
        return {'kind': 'dssp', 'mols': full, 'plan': [{'status': c['status'], 'lines': to_lines(c['text'])} for c in calls],
                'err': err, 'errtype': errtype or translate_failed, 'ncalls': len(seen), 'seen': seen,
                'aa': [project(mol, m['nres'], 'aasecstruct') for mol, m in zip(system.molecules, mols)],
                'cg': [project(mol, m['nres'], 'cgsecstruct') if not translate_failed else ['!'] * m['nres']
                       for mol, m in zip(system.molecules, mols)],
                'hasbeads': False, 'beads': [], 'hdr': ['-'], 'saved': [], 'how': how, 'nonsorting': nonsorting}
    finally:
        os.chdir(cwd)
        shutil.rmtree(work, ignore_errors=True)


def to_lines(text):
    """What read_dssp2 is given by run_dssp: stdout split at newlines; as sequences of characters for TLC."""
    return [list(line) for line in text.split('\n')]


def render(kinds, table):
    return '\n'.join(table[k] for k in kinds) + '\n'


# ------------------------------------------------------------------------------------------------ TAB replays

def line_table():
    res = tlc.run('DsspLines', 'SPECIFICATION Spec\n', dump=True, timeout=300)
    table = {st['kind']: ''.join(st['text']) for st in res.states()}
    if len(table) < 25 or table.get('table', '')[:15] != '  #  RESIDUE AA':
        raise tlc.MachineryError('DsspLines did not dump the line table')
    return table, res


def _file_chunk(args):
    states, table = args
    from vermouth.dssp.dssp import read_dssp2
    n, skipped, bad = 0, 0, []
    for idx, st in enumerate(states):
        exp = st['out']
        if exp.get('unspecified'):
            skipped += 1
            continue
        lines = [table[k] for k in st['kinds']]
        for presentation in range(2 if idx % 4 == 0 else 1):      # a list of lines / a generator (any iterable is allowed)
            try:
                got = read_dssp2(lines if presentation == 0 else (line for line in lines))
                err = False
            except IOError:
                got, err = None, True
            except Exception as exc:           # any other exception type is not the documented IOError
                got, err = 'raised %r' % (exc,), False
            n += 1
            if err != exp['err'] or (not err and got != list(exp['val'])):
                bad.append({'kind': 'file', 'kinds': list(st['kinds']), 'lines': lines, 'expected': common.jsonable(exp),
                            'got_err': err, 'got': got})
                break
    return n, skipped, bad


def _route_chunk(args):
    states, table, seed, exe_every = args
    rng = random.Random(seed)
    n, bad, stats = 0, [], {'exe': 0, 'err': 0, 'ok': 0, 'lig_first': 0, 'nopos': 0}
    for idx, st in enumerate(states):
        out = st['out']
        mols = [dict(m) for m in st['mols']]
        calls = [{'status': s, 'text': render(k, table)} for s, k in zip(out['status'], out['kinds'])]
        how = 'exe' if idx % exe_every == 0 else 'shim'
        ev = run_library(mols, calls, rng, how)
        n += 1
        stats['exe'] += how == 'exe'
        exp = out['exp']
        stats['err' if exp['errAt'] else 'ok'] += 1
        stats['lig_first'] += (not mols[0]['protein']) and any(m['protein'] for m in mols)
        stats['nopos'] += any(m['protein'] and not m['haspos'] for m in mols)
        aa = [list(x) for x in exp['aa']]
        cg = [list(x) for x in exp['cg']]
        why = None
        if bool(exp['errAt']) != ev['err']:
            why = 'error expected %s got %s (%s)' % (bool(exp['errAt']), ev['err'], ev['errtype'])
        elif exp['errAt']:
            at = exp['errAt'] - 1
            if any(v != '-' for v in ev['aa'][at]):
                why = 'molecule %d annotated although its DSSP answer is unusable' % exp['errAt']
            elif any(got != want and any(v != '-' for v in got) for got, want in zip(ev['aa'], aa)):
                why = 'classes on wrong residues before the error'
        elif ev['aa'] != aa:
            why = 'aasecstruct %s expected %s' % (ev['aa'], aa)
        elif ev['cg'] != cg:
            why = 'cgsecstruct %s expected %s' % (ev['cg'], cg)
        if why:
            bad.append({'kind': 'dssp-row', 'mols': mols, 'shapes': list(st['shapes']), 'calls': calls, 'how': how,
                        'expected': common.jsonable(exp), 'got': {k: ev[k] for k in ('err', 'errtype', 'aa', 'cg', 'ncalls')},
                        'why': why})
    return n, bad, stats


# ------------------------------------------------------------------------------------------------ random families

def random_file(rng, table):
    """A realistic DSSP file: header of real length, table, residues with breaks; sometimes one planted defect.
    Text comes from the TLC-dumped line table; the numbers in front are replaced (columns 1-13 only)."""
    head = ['hdr'] + [rng.choice(['tot', 'hist', 'near1', 'near2', 'near3', 'near4', 'hdr']) for _ in range(rng.randint(0, 25))]
    rows = []
    for _ in range(rng.randint(0, 60)):
        x = rng.random()
        rows.append(rng.choice(['brk', 'brk1', 'empty']) if x < 0.08 else
                    rng.choice(['rH', 'rE', 'rB', 'rG', 'rI', 'rT', 'rS', 'r_', 'rH17', 'r_17', 'rEdec']))
    kinds = head + ['table'] + rows
    defect = rng.random()
    if defect < 0.10 and rows:
        rows[rng.randrange(len(rows))] = rng.choice(['rP', 'rC', 'rh', 's16', 's1'])
        kinds = head + ['table'] + rows
    elif defect < 0.15:
        kinds = head + rows                  # table line missing
    elif defect < 0.20:
        kinds = ['v1'] + head[1:] + ['table'] + rows
    elif defect < 0.25:
        kinds = head + ['table'] + rows[:len(rows) // 2] + ['table'] + rows[len(rows) // 2:]   # a second table line IS a row
    lines = []
    for i, k in enumerate(kinds):
        text = table[k]
        if k.startswith('r') and len(text) >= 17:
            text = '%5d%5d %s ' % (i % 100000, (i * 7) % 10000, rng.choice('AB')) + text[13:]
        lines.append(text)
    return lines, ('defect' if defect < 0.20 and (rows or defect >= 0.10) else 'plain')


def _file_events(args):
    n, seed, table = args
    from vermouth.dssp.dssp import read_dssp2
    rng = random.Random(seed)
    out = []
    for _ in range(n):
        lines, planned = random_file(rng, table)
        try:
            got, err = read_dssp2(iter(lines)), False
        except IOError:
            got, err = [], True
        out.append({'kind': 'file', 'lines': [list(line) for line in lines], 'err': err, 'out': [str(c) for c in got],
                    'planned': planned})
    return out


def random_answer(rng, table, nres, shape):
    """DSSP text for one molecule of nres residues: long helical / strand / coil stretches so that the Martini
    translation has runs of every length; shape as in DsspRoute (exact, breaks, short, long, ...)."""
    classes = []
    while len(classes) < nres + 1:
        x = rng.random()
        if x < 0.55:
            classes += [rng.choice('HHHGI')] * rng.randint(1, 11)
            if rng.random() < 0.4:
                classes += [rng.choice('HGI')] * rng.randint(1, 5)       # adjacent helix classes: ONE Martini run
        else:
            classes += [rng.choice('EBTS  ')] * rng.randint(1, 4)
    want = {'exact': nres, 'breaks': nres, 'short': nres - 1, 'shortbrk': nres - 1, 'long': nres + 1, 'badclass': nres,
            'nohead': nres, 'fail': nres}[shape]
    rows = [{'H': 'rH', 'E': 'rE', 'B': 'rB', 'G': 'rG', 'I': 'rI', 'T': 'rT', 'S': 'rS', ' ': 'r_'}[c] for c in classes[:want]]
    if shape == 'badclass':
        rows[rng.randrange(len(rows))] = rng.choice(['rP', 'rC', 's16'])
    if shape in ('breaks', 'shortbrk'):
        for _ in range(1 if shape == 'shortbrk' else rng.randint(1, 3)):
            rows.insert(rng.randint(0, len(rows)), rng.choice(['brk', 'brk1']))
        if shape == 'breaks':
            rows.append('empty')
    head = ['hdr'] + [rng.choice(['tot', 'hist', 'near2', 'near3']) for _ in range(rng.randint(0, 6))]
    kinds = head + ([] if shape == 'nohead' else ['table']) + rows
    return {'status': 1 if shape == 'fail' else 0, 'text': render(kinds, table)}


def random_dssp_case(rng, table, max_mols=5, max_res=24):
    mols = []
    for _ in range(rng.randint(1, max_mols)):
        protein = rng.random() < 0.6
        mols.append({'protein': protein, 'haspos': True if not protein else rng.random() < 0.9, 'nres': rng.randint(2, max_res)})
    callers = [m for m in mols if m['protein'] and m['haspos']]
    bad = rng.random() < 0.3 and callers
    shapes = [rng.choice(['exact', 'exact', 'breaks']) for _ in callers]
    if bad:
        shapes[rng.randrange(len(callers))] = rng.choice(['short', 'shortbrk', 'long', 'badclass', 'nohead', 'fail'])
    calls = []
    for m, s in zip(callers, shapes):
        if s in ('short', 'shortbrk') and m['nres'] == 2:      # one class for a two-residue molecule: not specified
            s = 'long'
        calls.append(random_answer(rng, table, m['nres'], s))
    return mols, calls, ('defect' if bad else 'plain')


def _dssp_events(args):
    n, seed, table = args
    rng = random.Random(seed)
    out = []
    for i in range(n):
        mols, calls, planned = random_dssp_case(rng, table)
        out.append(dict(run_library(mols, calls, rng, 'exe' if i % 6 == 0 else 'shim'), planned=planned))
    return out


# ------------------------------------------------------------------------------------------------ command line route

def benzene(serial, chain, resid, centre):
    names = ['CG', 'CD1', 'CE1', 'CZ', 'CE2', 'CD2']
    hnames = ['HG', 'HD1', 'HE1', 'HZ', 'HE2', 'HD2']
    out = []
    for i, (c, h) in enumerate(zip(names, hnames)):
        a = math.pi / 3 * i
        for name, r, el in ((c, 1.40, 'C'), (h, 2.48, 'H')):
            x, y = centre[0] + r * math.cos(a), centre[1] + r * math.sin(a)
            out.append('HETATM%5d %-4s %-4s%s%4d    %8.3f%8.3f%8.3f  1.00  0.00          %2s'
                       % (serial, ' ' + name, 'BENZ', chain, resid, x, y, centre[2], el))
            serial += 1
    return out, serial


def build_pdb(chains, rng):
    """chains: [{'code': 'P'|'W'|'S'|'H'|'L', 'label': 'A', 'scheme': ...}] in file order; 'L' = a benzene molecule
    (HETATM, known to the charmm force field and mapped to Martini 3: it survives as a NON-protein molecule).
    Residue numbers of a peptide follow ch['scheme']: increasing, decreasing, restarting (1..p 1..p with (number, name)
    unique), wrapping 9999 -> 0, insertion codes 52 52A 52B.
    Returns (pdb text, per-chain [{'label','protein','nres','ids': [(resid, icode, resname)] in FILE order}])."""
    from . import cli_c03
    out = ['CRYST1  900.000  900.000  900.000  90.00  90.00  90.00 P 1           1']
    serial, info = 1, []
    for ci, ch in enumerate(chains):
        label = ch['label']
        if ch['code'] == 'L':
            resid = rng.choice([1, 7, 300])
            lines, serial = benzene(serial, label, resid, (60.0 * ci + 10.0, 400.0, 400.0))
            out += lines + ['TER']
            serial += 1
            info.append({'label': label, 'protein': False, 'nres': 1, 'ids': [(resid, '', 'BENZ')]})
            continue
        path = os.path.join(cli_c03.TESTS, cli_c03.PEPTIDES[ch['code']], 'aa.pdb')
        atoms = [line.ljust(80) for line in open(path).read().splitlines() if line.startswith('ATOM')]
        order, resnames = [], []
        for line in atoms:
            if line[22:27] not in order:
                order.append(line[22:27])
                resnames.append(line[17:20].strip())
        scheme = ch.get('scheme', 'inc')
        if scheme == 'chains':                              # on the command line a chain is one chain
            scheme = 'dec'
        if scheme == 'restart':                             # 1 2 .. p 1 2 .. p: (number, residue name) stays unique
            period = next((q for q in range(3, len(order)) if len({(r % q, resnames[r]) for r in range(len(order))}) == len(order)), None)
            ids = [(r % period + 1, '', resnames[r]) for r in range(len(order))] if period else None
        else:
            ids = None
        if ids is None:
            idents = identities(len(order), scheme if scheme != 'restart' else 'dec', ['X'], rng)
            ids = [(i[1], i[2], resnames[r]) for r, i in enumerate(idents)]
        for line in atoms:
            resid, icode, _ = ids[order.index(line[22:27])]
            x = float(line[30:38]) + 60.0 * ci
            out.append('%s%5d%s%s%4d%s%s%8.3f%s' % (line[:6], serial, line[11:21], label, resid, icode or ' ', line[27:30], x,
                                                   line[38:].rstrip()))
            serial += 1
        out.append('TER')
        serial += 1
        info.append({'label': label, 'protein': True, 'nres': len(order), 'ids': ids})
    out.append('END')
    return '\n'.join(out) + '\n', info


def cli_case(case):
    """One run of the REAL command line, in-process in a fresh worker, in a scratch directory.
    case: {'chains': [...], 'mode': 'ss'|'collagen'|'dssp', 'ss': str, 'calls': [...], 'extra': [...], 'seed': int}
    Returns the event for Trace_Annotate (kind 'cli' or 'dssp') or {'kind': 'inconclusive', 'why': ...}."""
    from . import cli_c03
    rng = random.Random(case['seed'])
    root = tempfile.mkdtemp(prefix='c17cli_')
    cwd, argv0 = os.getcwd(), list(sys.argv)
    snap = {}
    log = io.StringIO()
    try:
        os.chdir(root)
        text, info = build_pdb(case['chains'], rng)
        with open('in.pdb', 'w') as fh:
            fh.write(text)
        by_label = {c['label']: c for c in info}
        order = [c['label'] for c in info]

        def locate(system):
            """molecule -> the input chain it is (this family never merges before the annotation)."""
            labels = []
            for mol in system.molecules:
                ls = {d.get('chain') for _, d in mol.nodes(data=True)}
                labels.append(ls.pop() if len(ls) == 1 else None)
            return labels

        def per_residue(mol, chain, attr):
            ids = chain['ids']
            per = {}
            for _, d in mol.nodes(data=True):
                key = (d.get('resid'), d.get('insertion_code') or '', d.get('resname'))
                if key not in ids:
                    return None
                r = ids.index(key)
                v = d.get(attr)
                v = '-' if v is None else str(v)
                if r in per and per[r] != v:
                    per[r] = '?'
                per.setdefault(r, v)
            return [per.get(r, '!') for r in range(len(ids))]

        def snapshot(system, tag):
            labels = locate(system)
            if None in labels or any(l not in by_label for l in labels):
                snap['problem'] = 'molecules are not the input chains: %r' % (labels,)
                return
            snap[tag + '_labels'] = labels
            snap[tag + '_aa'] = [per_residue(m, by_label[l], 'aasecstruct') for m, l in zip(system.molecules, labels)]
            snap[tag + '_cg'] = [per_residue(m, by_label[l], 'cgsecstruct') for m, l in zip(system.molecules, labels)]
            import numpy as np
            snap[tag + '_natoms'] = [sum(1 for _, d in m.nodes(data=True) if d.get('position') is not None
                                         and np.all(np.isfinite(d['position']))) for m in system.molecules]

        with contextlib.redirect_stderr(log), contextlib.redirect_stdout(log):
            cli = cli_c03.load_cli()
        from vermouth.dssp import dssp as D

        def wrap(cls, tag):
            orig = cls.run_system

            def run_system(self, system):
                snapshot(system, tag + '_before')
                try:
                    result = orig(self, system)
                except Exception as exc:
                    snap['raised'] = '%s in %s: %s' % (type(exc).__name__, cls.__name__, str(exc)[:160])
                    raise
                finally:
                    snapshot(system, tag)        # also after a failure: what did the failed annotation leave behind
                return result
            cls.run_system = run_system
        wrap(D.AnnotateDSSP, 'dssp')
        wrap(D.AnnotateMartiniSecondaryStructures, 'martini')
        wrap(D.AnnotateResidues, 'residues')
        real_write = cli.write_gmx_topology

        def interposed(system, *args, **kwargs):
            beads = {}
            for mol in system.molecules:
                groups, last = [], None
                for _, d in mol.nodes(data=True):
                    key = (d.get('chain'), d.get('resid'), d.get('resname'))
                    if key != last:
                        groups.append([d.get('chain'), set()])
                        last = key
                    v = d.get('cgsecstruct')
                    groups[-1][1].add('-' if v is None else str(v))
                for chain, values in groups:
                    beads.setdefault(chain, []).append(values.pop() if len(values) == 1 else '?')
            snap['beads'] = beads
            header = list(system.meta.get('header', []))
            snap['hdr'] = '-'
            for i, line in enumerate(header):
                if line.startswith('was used for the full system') and i + 1 < len(header):
                    snap['hdr'] = header[i + 1]
            return real_write(system, *args, **kwargs)
        cli.write_gmx_topology = interposed

        argv = ['-f', 'in.pdb', '-x', 'cg.pdb', '-o', 'topol.top', '-maxwarn', '1000'] + list(case.get('extra', []))
        exe = None
        if case['mode'] == 'ss':
            argv += ['-ss', case['ss']]
        elif case['mode'] == 'collagen':
            argv += ['-collagen']
        elif case['mode'] == 'mdtraj':
            # `-dssp` without an executable: MDTraj computes the classes.  What it computes is not ours to judge; WHERE the
            # classes end up is: its answers are recorded and the run is judged like `-ss <all answers in system order>`.
            if not D.HAVE_MDTRAJ:
                return {'kind': 'inconclusive', 'argv': '-dssp', 'why': 'mdtraj not importable', 'rc': 0, 'exc': ''}
            real_md = D.run_mdtraj

            def recorded(system):
                answer = real_md(system)
                snap.setdefault('md', []).append([str(c) for c in answer])
                return answer
            D.run_mdtraj = recorded
            argv += ['-dssp']
        else:
            exe = write_fake(root, case['calls'], case.get('version', VERSIONS[0]))
            argv += ['-dssp', exe]
        sys.argv = ['martinize2'] + argv
        rc, exc_name = 0, ''
        with contextlib.redirect_stderr(log), contextlib.redirect_stdout(log):
            try:
                cli.entry()
            except SystemExit as exc:
                rc = exc.code if isinstance(exc.code, int) else (0 if exc.code is None else 1)
            except Exception as exc:
                rc, exc_name = -1, type(exc).__name__ + ': ' + str(exc)[:200]
        base = {'argv': ' '.join(argv), 'chains': case['chains'], 'extra': list(case.get('extra', [])), 'seed': case['seed'],
                'version': case.get('version', VERSIONS[0]), 'planned': case.get('planned', 'plain'), 'rc': rc, 'exc': snap.get('raised', exc_name)}
        if 'problem' in snap:
            return dict(base, kind='inconclusive', why=snap['problem'])
        wrote = 'beads' in snap
        err = 'raised' in snap                    # an annotation processor raised: the ERROR outcome of the property
        if rc == -1 and not err:
            return dict(base, kind='inconclusive', why='the pipeline failed outside the annotation: %s' % exc_name)
        if rc not in (0, -1) or (rc == 0 and not wrote):
            return dict(base, kind='inconclusive', why='exit status %s: %s' % (rc, log.getvalue()[-300:]))
        tags = {'ss': ['martini', 'residues'], 'collagen': ['residues'], 'dssp': ['martini', 'dssp'], 'mdtraj': ['martini', 'dssp']}[case['mode']]
        stage = next((t for t in tags if t + '_labels' in snap), None)
        if stage is None:
            return dict(base, kind='inconclusive', why='annotation stage never reached: rc=%s %s %s' % (rc, exc_name, log.getvalue()[-300:]))
        labels = snap[stage + '_labels']
        aa, cg = snap[stage + '_aa'], snap[stage + '_cg']
        if any(x is None for x in aa + cg):
            return dict(base, kind='inconclusive', why='atoms with residue numbers that are not in the input')
        beads = []
        if wrote:
            for l in labels:
                b = snap['beads'].get(l, [])
                if len(b) != by_label[l]['nres']:
                    return dict(base, kind='inconclusive', why='chain %s has %d coarse-grained residues for %d' % (l, len(b), by_label[l]['nres']))
                beads.append(b)
        hdr = list(snap.get('hdr', '-')) or ['-']
        nonsorting = any(by_label[l]['protein'] and by_label[l]['ids'] != sorted(by_label[l]['ids']) for l in labels) or \
            [l for l in labels if by_label[l]['protein']] != sorted(l for l in labels if by_label[l]['protein'])
        if case['mode'] in ('ss', 'collagen', 'mdtraj'):
            if case['mode'] == 'mdtraj':
                case = dict(case, ss=''.join(c for answer in snap.get('md', []) for c in answer))
            return dict(base, kind='cli', mode='ss' if case['mode'] == 'mdtraj' else case['mode'], route=case['mode'],
                        system=[{'sel': by_label[l]['protein'], 'nres': by_label[l]['nres']} for l in labels],
                        seq=list(case['ss']) if case['mode'] != 'collagen' else ['F'], err=err, aa=aa, cg=cg,
                        beads=beads if wrote else cg, hdr=hdr, nonsorting=nonsorting, wrote=wrote)
        natoms = snap.get('dssp_before_natoms', [0] * len(labels))
        saved = []
        if wrote and rc == 0:
            for l in labels:
                if by_label[l]['protein']:
                    path = 'chain_%s.ssd' % l
                    if not os.path.exists(path):
                        saved = []
                        break
                    with open(path) as fh:
                        saved.append(to_lines(fh.read()))
        seen = read_seen(root)
        return dict(base, kind='dssp',
                    mols=[{'protein': by_label[l]['protein'], 'haspos': True, 'nres': by_label[l]['nres'], 'natoms': n}
                          for l, n in zip(labels, natoms)],
                    plan=[{'status': c['status'], 'lines': to_lines(c['text'])} for c in case['calls']],
                    err=err, errtype=snap.get('raised', ''), ncalls=len(seen), seen=seen, aa=aa, cg=cg, hasbeads=wrote, beads=beads,
                    hdr=hdr, saved=saved, how='cli', nonsorting=nonsorting, wrote=wrote)
    finally:
        sys.argv = argv0
        os.chdir(cwd)
        shutil.rmtree(root, ignore_errors=True)


def ss_string(rng, n):
    s = ''
    while len(s) < n:
        if rng.random() < 0.5:
            s += rng.choice('HGI') * rng.randint(1, 10)
        else:
            s += rng.choice('EBTSC') * rng.randint(1, 3)
    return s[:n]


LABELS = 'BADCFE'          # file order of the chain labels: B before A, D before C


def cli_plan(tier, seed, table):
    """The command-line scenarios: every order of protein (P dipro, W trp-cage, H helix bundle) and non-protein (L) molecules
    of up to three molecules for -ss, plus the documented repetitions, wrong lengths, -collagen and -dssp <scripted>."""
    rng = random.Random(seed * 9176 + 5)
    quick = tier == 'quick'
    cases = []

    def chains_of(codes, schemes=None):
        return [{'code': c, 'label': LABELS[i], 'scheme': (schemes or {}).get(i, rng.choice(['inc', 'dec', 'wrap', 'icode', 'restart']) if c != 'L' else 'inc')}
                for i, c in enumerate(codes)]
    nres = {'P': 2, 'W': 20, 'S': 29, 'H': 43, 'L': 0}

    def total(codes):
        return sum(nres[c] for c in codes)
    orders = ['LWP', 'WLP', 'PWL', 'LPL', 'LLW', 'WP'] if quick else \
        ['LWP', 'WLP', 'PWL', 'LPL', 'PLW', 'LLW', 'WLL', 'WP', 'LPW', 'PLLW', 'LWLP', 'HLP', 'LH', 'SLW', 'W', 'LHLW']
    for codes in orders:                                  # full-length string
        cases.append({'chains': chains_of(codes), 'mode': 'ss', 'ss': ss_string(rng, total(codes))})
    for codes in (['LWP', 'PLW'] if quick else ['LWP', 'PLW', 'WLP', 'LHP']):       # wrong lengths
        n = total(codes)
        cases.append({'chains': chains_of(codes), 'mode': 'ss', 'ss': ss_string(rng, n + rng.choice([-1, 1]))})
        if not quick:
            cases.append({'chains': chains_of(codes), 'mode': 'ss', 'ss': ss_string(rng, n + 1)})     # one per molecule incl. the ligand
    for codes in (['LPLP', 'WLW'] if quick else ['LPLP', 'WLW', 'PLPLP', 'PP', 'LWW']):    # one-molecule-long string, repeated
        cases.append({'chains': chains_of(codes), 'mode': 'ss', 'ss': ss_string(rng, max(nres[c] for c in codes))})
    for codes in (['LWP'] if quick else ['LWP', 'PLH']):                             # one character
        cases.append({'chains': chains_of(codes), 'mode': 'ss', 'ss': rng.choice('HEC')})
    for codes in (['LPW', 'WLP'] if quick else ['LPW', 'WLP', 'PLLW', 'W']):          # -collagen
        cases.append({'chains': chains_of(codes), 'mode': 'collagen', 'ss': 'F'})
    if not quick:
        cases.append({'chains': chains_of('PW'), 'mode': 'collagen', 'ss': 'F', 'extra': ['-ff', 'martini22']})   # a force field WITH collagen
    cases.append({'chains': chains_of('WLP', {0: 'dec', 2: 'inc'}), 'mode': 'ss', 'ss': ss_string(rng, 22), 'extra': ['-merge', 'B,D']})
    dssp_orders = ['LWP', 'WLP', 'PLW'] if quick else ['LWP', 'WLP', 'PLW', 'WP', 'LPLW', 'HLP', 'LH', 'PWL', 'SLW']
    for codes in dssp_orders:
        chains = chains_of(codes)
        calls = [random_answer(rng, table, nres[c], rng.choice(['exact', 'breaks'])) for c in codes if c != 'L']
        cases.append({'chains': chains, 'mode': 'dssp', 'ss': '', 'calls': calls, 'version': rng.choice(VERSIONS)})
    bad_dssp = [('LWP', 'long'), ('WLP', 'shortbrk'), ('PLW', 'fail')] if quick else \
        [('LWP', 'long'), ('WLP', 'shortbrk'), ('PLW', 'badclass'), ('LWP', 'fail'), ('WLW', 'nohead'), ('WLH', 'short')]
    n_bad_dssp = len(bad_dssp)
    for codes, shape in bad_dssp:
        chains = chains_of(codes)
        prot = [c for c in codes if c != 'L']
        bad_at = rng.randrange(len(prot))
        calls = [random_answer(rng, table, nres[c], 'exact' if j != bad_at else
                               ('long' if shape in ('short', 'shortbrk') and nres[c] == 2 else shape)) for j, c in enumerate(prot)]
        cases.append({'chains': chains, 'mode': 'dssp', 'ss': '', 'calls': calls, 'version': VERSIONS[0]})
    for codes in (['WLP'] if quick else ['WLP', 'LSW', 'HLP']):                      # -dssp without executable: MDTraj
        cases.insert(0, {'chains': chains_of(codes, {i: 'icode' for i in range(len(codes))}), 'mode': 'mdtraj', 'ss': ''})
    for i, c in enumerate(cases):
        c['seed'] = seed * 1000 + i
        if c['mode'] == 'ss':
            n = total([ch['code'] for ch in c['chains']])
            lens = {nres[ch['code']] for ch in c['chains'] if ch['code'] != 'L'}
            c['planned'] = 'plain' if len(c['ss']) in (1, n) or (len(lens) == 1 and len(c['ss']) in lens) else 'defect'
        elif c['mode'] == 'dssp':
            c['planned'] = 'defect' if i >= len(cases) - n_bad_dssp else 'plain'
        else:
            c['planned'] = 'plain'
    return cases
