"""C05 - links are applied at exactly the places where they fit.

spec/Links.tla        MatchOrderOp (implementation-shaped) / MatchOrderDoc (documented matrix); Fits(L, M): attributes
                      (equality, Choice, NotDefinedOrNot), the `modifications` condition (absent / empty / list / string / Choice)
                      on link atoms, non-edge partners and pattern atoms, required AND absent bonds, residue orders, non-edges,
                      patterns, molecule-level conditions; ApplyPlacement: replace, remove-matching (parameters, per-atom
                      conditions, meta conditions), add-or-replace by (type, atoms, version); geometry-derived parameters
                      (distance, angle, dihedral, shifted dihedral) as exact integer invariants of lattice positions
spec/LinksOrder.tla   TAB model of the order relation (OpIsDoc, Symmetric)
spec/Trace_Links.tla  TLC judges recorded runs of the real DoLinks.run_molecule (matches per link from an interposed
                      match_link, node attributes seen by each link, final interaction table) and rows of match_order

spec -> code: every row of the order table is replayed into the real match_order (including the ValueError set).
code -> spec: (a) generated molecules x ordered link lists over a feature pool; (b) the shipped link libraries (martini3001,
martini22, elnedyn22) on real coarse-grained molecules built by the real pipeline (harness/c05_real.py).  In both, every
placement the real code applies must be in Fits (sound), every element of Fits must be applied (complete), the final table must
equal the fold of ApplyPlacement in the recorded order (later links override earlier ones; nothing unjustified), and every
geometry-derived parameter must be the value of the exact invariants TLC computes from the matched atoms' positions.
The projection real object -> JSON is one generic function for both families (c05_real.abstract_link / abstract_state); for
the generated family it is checked to invert the construction of the objects."""

import itertools
import multiprocessing as mp
import os
import random

from . import common, tlc
from . import c05_real as R

PID = 'C05'


# ------------------------------------------------------------------ order table
def order_py(o):
    if o['k'] == 'num':
        return o['v']
    return {'gt': '>', 'lt': '<', 'star': '*'}[o['k']] * o['v']


def _order_rows(states):
    from vermouth.processors.do_links import match_order
    bad, n = [], 0
    for st in states:
        n += 1
        try:
            got = bool(match_order(order_py(st['o1']), st['r1'], order_py(st['o2']), st['r2']))
        except Exception as exc:      # noqa
            got = 'exception %r' % (exc,)
        if got != st['res']:
            bad.append({'table': 'order', 'o1': st['o1'], 'r1': st['r1'], 'o2': st['o2'], 'r2': st['r2'], 'expected': st['res'], 'got': got})
    return n, bad


INVALID_ORDERS = [True, False, 1.5, '', '><', '+-', 'x', '>x', [], None, -0.5]
VALID_ORDERS = [0, 1, -2, 2.0, '>', '>>', '<', '*', '**', ('>', '>')]


def check_invalid_orders(vd, ev):
    from vermouth.processors.do_links import match_order
    for bad_o in INVALID_ORDERS:
        for other in (0, '>'):
            for args in ((bad_o, 1, other, 2), (other, 1, bad_o, 2)):
                ev.evaluations += 1
                try:
                    match_order(*args)
                    vd.violation('invalid-order-accepted', {'args': common.jsonable(args)}, 'match_order%r did not raise ValueError' % (args,))
                except ValueError:
                    pass
                except Exception as exc:      # noqa
                    vd.violation('invalid-order-wrong-exception', {'args': common.jsonable(args)}, repr(exc))
    for o in VALID_ORDERS:
        ev.evaluations += 1
        try:
            match_order(o, 1, 0, 1)
        except Exception as exc:      # noqa
            vd.violation('valid-order-rejected', {'order': common.jsonable(o)}, repr(exc))




# ------------------------------------------------------------------ molecules and links (generated family)
UNIT_PM = 100          # generated molecules: 100 pm lattice, coordinates -6..6
ATTR_KEYS = ['atomname', 'resname', 'chain', 'cgsecstruct', 'mark', 'atype']
META_KEYS = ['cter', 'moltype']
MOD_SETS = [[['N-ter']], [['C-ter']], [['N-ter'], ['prot']], [['N-ter', 'prot']], [['C-ter'], ['C-ter']], [['prot']], [['C-ter'], ['N-ter']]]


def pred(key, kind, *vals):
    return {'key': key, 'kind': kind, 'vals': [str(v) for v in vals]}


def make_molecule(rng):
    """Abstract molecule: residues of BB (+ SC1 (+ SC2)); resids with gaps / repeated in another chain; extra bonds;
    atoms carrying modifications; positions random / planar / on a coarse grid (so that every angle class occurs)."""
    nres = rng.randint(2, 5)
    nodes, edges, pos = [], [], []
    resid = rng.choice([1, 1, 5, 40])
    chain = 'A'
    nid = rng.choice([0, 0, 3, 10])
    bbs = []
    prev_bb = None
    geom = rng.choice(['random', 'random', 'planar', 'grid', 'line'])
    for r in range(nres):
        if r and rng.random() < 0.25:
            resid += rng.choice([2, 3])          # numbering gap
        elif r:
            resid += 1
        if r and rng.random() < 0.15:
            chain = 'B'
            if rng.random() < 0.5:
                resid = 1
        resname = rng.choice(['ALA', 'GLY', 'LYS', 'LYS', 'CYS'])
        ss = rng.choice(['H', 'C'])
        names = ['BB'] + (['SC1'] if resname != 'GLY' else []) + (['SC2'] if resname == 'LYS' and rng.random() < 0.6 else [])
        ids = []
        for name in names:
            attrs = [['atomname', name], ['resname', resname], ['chain', chain], ['cgsecstruct', ss]]
            if rng.random() < 0.3:
                attrs.append(['mark', rng.choice(['x', 'y'])])
            mods = rng.choice(MOD_SETS) if rng.random() < (0.45 if name == 'BB' else 0.2) else []
            nodes.append({'id': nid, 'resid': resid, 'attrs': attrs, 'mods': mods})
            if geom == 'grid':
                xyz = [rng.randint(-1, 1) * 2, rng.randint(-1, 1) * 2, rng.randint(-1, 1) * 2]
            elif geom == 'line':
                xyz = [rng.randint(-6, 6), 0, 0] if rng.random() < 0.8 else [rng.randint(-2, 2), rng.randint(-2, 2), 0]
            else:
                xyz = [rng.randint(-6, 6), rng.randint(-6, 6), 0 if geom == 'planar' else rng.randint(-6, 6)]
            pos.append([nid] + xyz)
            ids.append(nid)
            nid += rng.choice([1, 1, 2])
        if prev_bb is not None and rng.random() < 0.9:
            edges.append([prev_bb, ids[0]])
        for a, b in zip(ids, ids[1:]):
            if rng.random() < 0.9:
                edges.append([a, b])
        if len(ids) == 3 and rng.random() < 0.5:
            edges.append([ids[0], ids[2]])
        prev_bb = ids[0]
        bbs.append(ids[0])
    if len(bbs) >= 3 and rng.random() < 0.3:          # cross-link / cycle
        a, b = rng.sample(bbs, 2)
        if [a, b] not in edges and [b, a] not in edges:
            edges.append([min(a, b), max(a, b)])
    rng.shuffle(edges)          # bond creation order (= adjacency iteration order) is arbitrary
    meta = ([['cter', 'yes']] if rng.random() < 0.5 else []) + [['moltype', 'mol']]
    inters = []
    for a, b in zip(bbs, bbs[1:]):
        if rng.random() < 0.5:
            group = rng.choice(['bb', 'bb', 'other', None])
            inters.append({'type': 'bonds', 'atoms': [a, b], 'params': [['p', '1'], ['p', '0.35']], 'ver': 0,
                           'meta': [['group', group]] if group else []})
    return {'nodes': nodes, 'edges': edges, 'meta': meta, 'pos': pos, 'inters': inters}


def num(v):
    return {'k': 'num', 'v': v}


def mods_list(*names):
    return {'k': 'list', 'vals': list(names)}


def mods_str(name):
    return {'k': 'str', 'vals': [name]}


def mods_choice(*names):
    return {'k': 'choice', 'vals': list(names)}


def link_pool():
    """Abstract links; each feature of the statement is the sole reason for a placement to fail in some link."""
    def node(key, order, *preds, mods=None):
        name = key.lstrip('+-><*')
        return {'key': key, 'order': order, 'preds': [pred('atomname', 'eq', name)] + list(preds), 'mods': mods or dict(R.ABSENT)}

    def inter(t, atoms, params, ver=0, group=None, fmt=None):
        meta = ([['group', group]] if group else []) + ([['version', '#num:%d' % ver]] if ver else [])
        return {'type': t, 'atoms': atoms, 'params': params, 'ver': ver, 'meta': meta, 'fmt': [[str(i), f] for i, f in (fmt or {}).items()]}

    def removal(t, atoms, params=(), atom_attrs=None, meta=()):
        return {'type': t, 'atoms': atoms, 'params': list(params), 'atom_attrs': atom_attrs or [[] for _ in atoms], 'meta': list(meta)}
    P = lambda *x: [['p', str(v)] for v in x]      # noqa: E731
    gt, lt, star = {'k': 'gt', 'v': 1}, {'k': 'lt', 'v': 1}, {'k': 'star', 'v': 1}
    bb2 = [node('BB', num(0)), node('+BB', num(1))]
    bb3 = [node('-BB', num(-1)), node('BB', num(0)), node('+BB', num(1))]
    e3 = [['-BB', 'BB'], ['BB', '+BB']]
    pool = []
    # backbone bond with geometry-derived length, replaced by a later link for helices
    pool.append({'name': 'bb-bond', 'nodes': bb2, 'edges': [['BB', '+BB']],
                 'inters': [inter('bonds', ['BB', '+BB'], [['p', '1'], ['dist', 'BB', '+BB'], ['p', '1250']], group='bb')]})
    pool.append({'name': 'bb-bond-helix', 'nodes': [node('BB', num(0), pred('cgsecstruct', 'eq', 'H')), node('+BB', num(1), pred('cgsecstruct', 'eq', 'H'))],
                 'edges': [['BB', '+BB']], 'inters': [inter('bonds', ['BB', '+BB'], P(1, 0.31, 9999), group='helix')]})
    pool.append({'name': 'angle-order', 'nodes': bb3, 'edges': e3, 'inters': [inter('angles', ['-BB', 'BB', '+BB'], P(2, 127, 20))]})
    pool.append({'name': 'angle-arrows', 'nodes': [node('<BB', lt), node('BB', num(0)), node('>BB', gt)],
                 'edges': [['<BB', 'BB'], ['BB', '>BB']], 'inters': [inter('angles', ['<BB', 'BB', '>BB'], P(10, 100, 5), 1)]})
    pool.append({'name': 'star-bridge', 'nodes': [node('SC1', num(0), pred('resname', 'eq', 'CYS')), node('*SC1', star, pred('resname', 'eq', 'CYS'))],
                 'edges': [], 'inters': [inter('constraints', ['SC1', '*SC1'], P(1, 0.24))]})
    pool.append({'name': 'choice', 'nodes': [node('BB', num(0), pred('resname', 'in', 'ALA', 'LYS')), node('SC1', num(0))],
                 'edges': [['BB', 'SC1']], 'inters': [inter('bonds', ['BB', 'SC1'], P(1, 0.27, 7500))],
                 'replaces': [{'key': 'SC1', 'attr': 'atype', 'value': 'Q5'}]})
    pool.append({'name': 'notdef', 'nodes': [node('BB', num(0), pred('mark', 'notdef', 'x')), node('+BB', num(1))],
                 'edges': [['BB', '+BB']], 'inters': [inter('exclusions', ['BB', '+BB'], [])]})
    pool.append({'name': 'non-edge', 'nodes': bb3, 'edges': e3,
                 'nonedges': [{'from': 'BB', 'order': 0, 'preds': [pred('atomname', 'eq', 'SC1')], 'mods': dict(R.ABSENT)}],
                 'inters': [inter('angles', ['-BB', 'BB', '+BB'], P(2, 134, 25))]})
    pool.append({'name': 'non-edge-next', 'nodes': [node('BB', num(0)), node('SC1', num(0))], 'edges': [['BB', 'SC1']],
                 'nonedges': [{'from': 'BB', 'order': 1, 'preds': [pred('atomname', 'eq', 'BB'), pred('resname', 'eq', 'GLY')], 'mods': dict(R.ABSENT)}],
                 'inters': [inter('bonds', ['BB', 'SC1'], P(1, 0.4, 100), 2)]})
    pool.append({'name': 'pattern', 'nodes': bb2, 'edges': [['BB', '+BB']],
                 'patterns': [[{'key': 'BB', 'preds': [pred('cgsecstruct', 'eq', 'H')], 'mods': dict(R.ABSENT)},
                               {'key': '+BB', 'preds': [pred('cgsecstruct', 'eq', 'C')], 'mods': dict(R.ABSENT)}],
                              [{'key': 'BB', 'preds': [pred('resname', 'eq', 'GLY')], 'mods': dict(R.ABSENT)}]],
                 'inters': [inter('dihedral_restraints', ['BB', '+BB'], P(1, 2, 3))]})
    pool.append({'name': 'molmeta', 'nodes': [node('BB', num(0)), node('SC1', num(0))], 'edges': [['BB', 'SC1']],
                 'molmeta': [pred('cter', 'eq', 'yes')], 'inters': [inter('bonds', ['BB', 'SC1'], P(1, 0.5, 50), 3)], 'features': ['cterm']})
    pool.append({'name': 'remove', 'nodes': bb2, 'edges': [['BB', '+BB']], 'removes': [removal('bonds', ['BB', '+BB'])], 'inters': []})
    pool.append({'name': 'no-bond-required', 'nodes': [node('BB', num(0)), node('++BB', num(2))], 'edges': [],
                 'inters': [inter('pairs', ['BB', '++BB'], P(1))]})
    pool.append({'name': 'delete-sc2', 'nodes': [node('SC1', num(0)), node('SC2', num(0), pred('resname', 'eq', 'LYS'))], 'edges': [['SC1', 'SC2']],
                 'deletes': ['SC2'], 'inters': []})
    # ---- the `modifications` condition: on link atoms (all forms), on a non-edge partner, on pattern atoms
    pool.append({'name': 'mods-empty-replace', 'nodes': [node('BB', num(0), pred('cgsecstruct', 'eq', 'C'), mods=dict(R.EMPTY))], 'edges': [],
                 'replaces': [{'key': 'BB', 'attr': 'atype', 'value': 'Nda'}], 'inters': []})
    pool.append({'name': 'mods-list', 'nodes': [node('BB', num(0), mods=mods_list('prot', 'N-ter')), node('SC1', num(0))], 'edges': [['BB', 'SC1']],
                 'inters': [inter('pairs', ['BB', 'SC1'], P(1, 7))]})
    pool.append({'name': 'mods-list-repeated', 'nodes': [node('BB', num(0), mods=mods_list('C-ter', 'C-ter'))], 'edges': [],
                 'inters': [inter('position_restraints', ['BB'], P(2, 50))]})
    pool.append({'name': 'mods-str', 'nodes': [node('-BB', num(-1)), node('BB', num(0), mods=mods_str('C-ter'))], 'edges': [['-BB', 'BB']],
                 'inters': [inter('bonds', ['-BB', 'BB'], P(1, 0.33, 'cter'), 4)]})
    pool.append({'name': 'mods-choice', 'nodes': [node('BB', num(0), mods=mods_choice('N-ter', 'C-ter'))], 'edges': [],
                 'inters': [inter('position_restraints', ['BB'], P(1, 1000))]})
    pool.append({'name': 'mods-non-edge', 'nodes': bb2, 'edges': [['BB', '+BB']],
                 'nonedges': [{'from': 'BB', 'order': 0, 'preds': [pred('atomname', 'eq', 'SC1')], 'mods': dict(R.EMPTY)}],
                 'inters': [inter('cmap', ['BB', '+BB'], P(3))]})
    pool.append({'name': 'mods-pattern', 'nodes': bb2, 'edges': [['BB', '+BB']],
                 'patterns': [[{'key': 'BB', 'preds': [], 'mods': mods_str('N-ter')}],
                              [{'key': '+BB', 'preds': [pred('resname', 'in', 'GLY', 'ALA')], 'mods': dict(R.EMPTY)}]],
                 'inters': [inter('angle_restraints', ['BB', '+BB'], P(9))]})
    pool.append({'name': 'pattern-null', 'nodes': bb2, 'edges': [['BB', '+BB']],
                 'patterns': [[{'key': 'BB', 'preds': [{'key': 'mark', 'kind': 'null', 'vals': []}], 'mods': dict(R.ABSENT)},
                               {'key': '+BB', 'preds': [{'key': 'mark', 'kind': 'null', 'vals': []}], 'mods': dict(R.ABSENT)}],
                              [{'key': 'BB', 'preds': [pred('mark', 'eq', 'x')], 'mods': dict(R.ABSENT)}]],
                 'inters': [inter('angle_restraints_z', ['BB', '+BB'], P(4))]})
    # ---- geometry-derived parameters
    pool.append({'name': 'angle-geo', 'nodes': bb3, 'edges': e3,
                 'inters': [inter('angles', ['-BB', 'BB', '+BB'], [['p', '2'], ['angle', '-BB', 'BB', '+BB'], ['p', '40']])]})
    pool.append({'name': 'angle-geo-formatted', 'nodes': [node('SC1', num(0)), node('BB', num(0)), node('+BB', num(1))], 'edges': [['SC1', 'BB'], ['BB', '+BB']],
                 'inters': [inter('angles', ['SC1', 'BB', '+BB'], [['p', '1'], ['angle', 'SC1', 'BB', '+BB'], ['p', '25']], 1, fmt={1: '.2f'})]})
    pool.append({'name': 'dihedral-geo', 'nodes': bb3 + [node('+SC1', num(1))], 'edges': e3 + [['+BB', '+SC1']],
                 'inters': [inter('dihedrals', ['-BB', 'BB', '+BB', '+SC1'], [['p', '2'], ['dih', '-BB', 'BB', '+BB', '+SC1'], ['p', '10']])]})
    pool.append({'name': 'dihedral-phase-formatted', 'nodes': [node('SC1', num(0)), node('BB', num(0)), node('+BB', num(1)), node('+SC1', num(1))],
                 'edges': [['SC1', 'BB'], ['BB', '+BB'], ['+BB', '+SC1']],
                 'inters': [inter('dihedrals', ['SC1', 'BB', '+BB', '+SC1'], [['p', '1'], ['dihp', 'SC1', 'BB', '+BB', '+SC1'], ['p', '75'], ['p', '1']],
                                  group='scfix', fmt={1: '.01f'})]})
    pool.append({'name': 'dihedral-phase', 'nodes': [node('-BB', num(-1)), node('BB', num(0)), node('SC1', num(0)), node('+BB', num(1))],
                 'edges': [['-BB', 'BB'], ['BB', 'SC1'], ['BB', '+BB']],
                 'inters': [inter('impropers', ['BB', '-BB', '+BB', 'SC1'], [['p', '2'], ['dihp', 'BB', '-BB', '+BB', 'SC1']]),
                            inter('impropers', ['BB', '-BB', '+BB', 'SC1'], [['dih', 'BB', '-BB', '+BB', 'SC1'], ['dihp', 'BB', '-BB', '+BB', 'SC1']], 1)]})
    pool.append({'name': 'dist-formatted', 'nodes': [node('BB', num(0)), node('SC1', num(0))], 'edges': [['BB', 'SC1']],
                 'inters': [inter('constraints', ['BB', 'SC1'], [['p', '1'], ['dist', 'SC1', 'BB']], fmt={1: '.3f'})]})
    # ---- removal templates with parameters, per-atom conditions and meta conditions
    pool.append({'name': 'remove-atom-attrs', 'nodes': bb2, 'edges': [['BB', '+BB']], 'inters': [],
                 'removes': [removal('bonds', ['BB', '+BB'], atom_attrs=[[pred('cgsecstruct', 'eq', 'H')], [pred('resname', 'in', 'ALA', 'LYS', 'CYS')]])]})
    pool.append({'name': 'remove-meta', 'nodes': bb2, 'edges': [['BB', '+BB']], 'inters': [],
                 'removes': [removal('bonds', ['BB', '+BB'], meta=[pred('group', 'eq', 'bb')])]})
    pool.append({'name': 'remove-meta-choice-params', 'nodes': bb2, 'edges': [['BB', '+BB']], 'inters': [],
                 'removes': [removal('bonds', ['BB', '+BB'], params=P(1, 0.31, 9999), meta=[pred('group', 'in', 'helix', 'x')])]})
    pool.append({'name': 'remove-meta-notdef', 'nodes': bb2, 'edges': [['BB', '+BB']], 'inters': [],
                 'removes': [removal('bonds', ['BB', '+BB'], params=P(1, 0.35), meta=[pred('group', 'notdef', 'other')])]})
    pool.append({'name': 'remove-versioned', 'nodes': [node('<BB', lt), node('BB', num(0)), node('>BB', gt)], 'edges': [['<BB', 'BB'], ['BB', '>BB']], 'inters': [],
                 'removes': [removal('angles', ['<BB', 'BB', '>BB'], meta=[pred('version', 'eq', '#num:1')]),
                             removal('angles', ['<BB', 'BB', '>BB'], atom_attrs=[[], [pred('mark', 'notdef', 'y')], []])]})
    # ---- links of ONE atom still have conditions that look outside the placement (non-edges) or at alternatives (patterns)
    pool.append({'name': 'single-non-edge', 'nodes': [node('BB', num(0))], 'edges': [],
                 'nonedges': [{'from': 'BB', 'order': 1, 'preds': [pred('atomname', 'eq', 'BB')], 'mods': dict(R.ABSENT)}],
                 'inters': [inter('position_restraints', ['BB'], P(3, 'chain-end'))], 'replaces': [{'key': 'BB', 'attr': 'atype', 'value': 'Qd'}]})
    pool.append({'name': 'single-pattern', 'nodes': [node('SC1', num(0))], 'edges': [],
                 'patterns': [[{'key': 'SC1', 'preds': [pred('resname', 'eq', 'CYS')], 'mods': dict(R.ABSENT)}],
                              [{'key': 'SC1', 'preds': [pred('cgsecstruct', 'eq', 'H')], 'mods': dict(R.ABSENT)}]],
                 'inters': [inter('position_restraints', ['SC1'], P(4, 'pattern'))]})
    # ---- an atom selected by a CHOICE of atom names (the shipped polarisable force fields exclude a charged terminus from the
    # charge dummies of its residue this way: XX {"atomname": "SCP|SCN"})
    pool.append({'name': 'choice-atomname', 'nodes': [node('BB', num(0)),
                                                     {'key': 'XX', 'order': num(0), 'preds': [pred('atomname', 'in', 'SC1', 'SC2')], 'mods': dict(R.ABSENT)}],
                 'edges': [['BB', 'XX']], 'inters': [inter('exclusions', ['BB', 'XX'], [])]})
    # ---- a link renames residues to a name that does not occur in the input; a later link selects on the new name
    pool.append({'name': 'rename-residue', 'nodes': [node('BB', num(0), pred('cgsecstruct', 'in', 'C', 'E')), node('+BB', num(1))],
                 'edges': [['BB', '+BB']], 'replaces': [{'key': 'BB', 'attr': 'resname', 'value': 'GLX'}], 'inters': []})
    pool.append({'name': 'on-renamed', 'nodes': [node('BB', num(0), pred('resname', 'eq', 'GLX')), node('+BB', num(1))], 'edges': [['BB', '+BB']],
                 'inters': [inter('bonds', ['BB', '+BB'], P(1, 0.36, 'glx'), 5)]})
    pool.append({'name': 'on-renamed-choice', 'nodes': [node('BB', num(0), pred('resname', 'in', 'GLX', 'XXX'))], 'edges': [],
                 'inters': [inter('position_restraints', ['BB'], P(5, 'glx'))]})
    return pool


THEMES = [
    ['rename-residue', 'on-renamed', 'on-renamed-choice', 'rename-residue', 'single-non-edge', 'single-pattern', 'choice-atomname', 'delete-sc2'],
    ['bb-bond', 'bb-bond-helix', 'remove', 'remove-atom-attrs', 'remove-meta', 'remove-meta-choice-params', 'remove-meta-notdef', 'mods-str'],
    ['angle-order', 'angle-arrows', 'angle-geo', 'non-edge', 'remove-versioned', 'angle-geo-formatted'],
    ['mods-empty-replace', 'mods-list', 'mods-list-repeated', 'mods-str', 'mods-choice', 'mods-non-edge', 'mods-pattern', 'choice', 'pattern-null', 'notdef'],
    ['angle-geo', 'angle-geo-formatted', 'dihedral-geo', 'dihedral-phase-formatted', 'dihedral-phase', 'dist-formatted', 'bb-bond', 'delete-sc2'],
]


def fill_link(L):
    return {'nodes': L['nodes'], 'edges': L.get('edges', []), 'nonedges': L.get('nonedges', []), 'patterns': L.get('patterns', []),
            'molmeta': L.get('molmeta', []), 'inters': L.get('inters', []), 'removes': L.get('removes', []),
            'replaces': L.get('replaces', []), 'deletes': L.get('deletes', []), 'features': L.get('features', [])}


def build_real(M, links):
    """Abstract molecule + abstract links -> real vermouth objects."""
    import numpy as np
    from vermouth.molecule import (Molecule, Link, Interaction, Choice, NotDefinedOrNot, ParamDistance, ParamAngle, ParamDihedral,
                                   ParamDihedralPhase, DeleteInteraction, Modification)
    from vermouth.forcefield import ForceField
    ff = ForceField(name='verif_c05')
    mol = Molecule(force_field=ff, nrexcl=1)
    positions = {p[0]: np.array(p[1:], dtype=float) * (UNIT_PM / 1000.0) for p in M['pos']}
    for n in M['nodes']:
        extra = {}
        if n['mods'] or n['id'] % 3 == 0:
            extra['modifications'] = [Modification(name=tuple(names)) for names in n['mods']]
        mol.add_node(n['id'], resid=n['resid'], position=positions[n['id']], **{k: R.dec(v) for k, v in n['attrs']}, **extra)
    mol.add_edges_from(M['edges'])
    mol.meta.update({k: R.dec(v) for k, v in M['meta']})
    for it in M['inters']:
        mol.interactions[it['type']].append(Interaction(atoms=tuple(it['atoms']), parameters=[R.dec(p[1]) for p in it['params']],
                                                        meta={k: R.dec(v) for k, v in it['meta']}))

    def conv_preds(preds):
        out = {}
        for p in preds:
            if p['kind'] == 'eq':
                out[p['key']] = R.dec(p['vals'][0])
            elif p['kind'] == 'in':
                out[p['key']] = Choice([R.dec(v) for v in p['vals']])
            elif p['kind'] == 'null':
                out[p['key']] = None
            else:
                out[p['key']] = NotDefinedOrNot(R.dec(p['vals'][0]))
        return out

    def conv_template(t, rng_key):
        out = conv_preds(t['preds'])
        c = t['mods']
        if c['k'] == 'empty':
            out['modifications'] = [None, [], ''][len(rng_key) % 3]          # the three spellings of "no modifications"
        elif c['k'] == 'list':
            out['modifications'] = list(c['vals'])
        elif c['k'] == 'str':
            out['modifications'] = c['vals'][0]
        elif c['k'] == 'choice':
            out['modifications'] = Choice(list(c['vals']))
        return out

    def conv_order(o):
        return o['v'] if o['k'] == 'num' else {'gt': '>', 'lt': '<', 'star': '*'}[o['k']] * o['v']
    effectors = {'dist': ParamDistance, 'angle': ParamAngle, 'dih': ParamDihedral, 'dihp': ParamDihedralPhase}
    for li, L in enumerate(links):
        link = Link(force_field=ff)
        for nd in L['nodes']:
            attrs = conv_template(nd, nd['key'] + 'x' * li)
            if nd['order']['k'] != 'none':
                attrs['order'] = conv_order(nd['order'])
            link.add_node(nd['key'], **attrs)
        link.add_edges_from(L.get('edges', []))
        for ne in L.get('nonedges', []):
            a = conv_template(ne, ne['from'])
            a['order'] = ne['order']
            link.non_edges.append([ne['from'], a])
        for pat in L.get('patterns', []):
            link.patterns.append([[x['key'], conv_template(x, x['key'])] for x in pat])
        link.molecule_meta.update(conv_preds(L.get('molmeta', [])))
        link.features.update(L.get('features', []))
        for it in L.get('inters', []):
            fmt = {int(i): f for i, f in it.get('fmt', [])}
            params = [effectors[p[0]](list(p[1:]), format_spec=fmt.get(i)) if p[0] in effectors else R.dec(p[1]) for i, p in enumerate(it['params'])]
            link.interactions.setdefault(it['type'], []).append(
                Interaction(atoms=tuple(it['atoms']), parameters=params, meta={k: R.dec(v) for k, v in it['meta']}))
        for rm in L.get('removes', []):
            link.removed_interactions.setdefault(rm['type'], []).append(
                DeleteInteraction(atoms=tuple(rm['atoms']), atom_attrs=[conv_preds(a) for a in rm['atom_attrs']],
                                  parameters=[R.dec(p[1]) for p in rm['params']], meta=conv_preds(rm['meta'])))
        for rp in L.get('replaces', []):
            link.nodes[rp['key']].setdefault('replace', {})[rp['attr']] = R.dec(rp['value'])
        for key in L.get('deletes', []):
            link.nodes[key].setdefault('replace', {})['atomname'] = None
        ff.links.append(link)
    return mol


def _canon(x):
    import json
    return json.dumps(x, sort_keys=True)


def run_real(M, links, proc=None):
    """Build the real objects, check that the generic projection gives the descriptions back, run the real DoLinks with the
    recorder. Returns the (single) run event."""
    mol = build_real(M, links)
    ljson = [fill_link(L) for L in links]
    back = [R.abstract_link(l) for l in mol.force_field.links]
    if _canon(back) != _canon(ljson):
        bad = next(i for i in range(len(ljson)) if _canon(back[i]) != _canon(ljson[i]))
        raise tlc.MachineryError('projection of a built link differs from its description: %s\n%s' % (_canon(ljson[bad]), _canon(back[bad])))
    M0, _ = R.abstract_state(mol, ATTR_KEYS, META_KEYS, UNIT_PM)
    same = (M0['nodes'] == M['nodes'] and M0['pos'] == M['pos'] and M0['meta'] == M['meta'] and M0['inters'] == M['inters']
            and sorted(map(sorted, M0['edges'])) == sorted(map(sorted, M['edges'])))
    if not same:
        raise tlc.MachineryError('projection of a built molecule differs from its description: %s\n%s' % (_canon(M), _canon(M0)))
    decoy = None
    if proc is not None:
        # the shared processor sees `mol` as the SECOND molecule of a system; the first one is the same molecule with the
        # molecule-level attribute the link pool tests ('cter') the other way round
        decoy = mol.copy()
        if 'cter' in decoy.meta:
            del decoy.meta['cter']
        else:
            decoy.meta['cter'] = 'yes'
    events = R.record_run(mol, ljson, ATTR_KEYS, META_KEYS, UNIT_PM, seg_len=None, with_before=True, proc=proc, decoy=decoy)
    assert len(events) == 1
    return events[0]


def pick_links(rng, pool, byname):
    k = rng.randint(1, 4)
    if rng.random() < 0.6:
        theme = rng.choice(THEMES)
        return [byname[rng.choice(theme)] for _ in range(k)]
    return [rng.choice(pool) for _ in range(k)]


def _run_chunk(args):
    n, seed = args
    rng = random.Random(seed)
    out = []
    pool = link_pool()
    byname = {L['name']: L for L in pool}
    # every other chunk pushes all its molecules through ONE DoLinks object, as run_system does for the molecules of a system
    from vermouth.processors.do_links import DoLinks
    shared = DoLinks() if seed % 2 == 0 else None
    for _ in range(n):
        M = make_molecule(rng)
        links = pick_links(rng, pool, byname)
        names = [L['name'] for L in links]
        try:
            e = run_real(M, links, shared)
        except tlc.MachineryError:
            raise
        except Exception as exc:      # noqa
            e = {'kind': 'run', 'M': M, 'links': [fill_link(L) for L in links], 'steps': [], 'final': {'ids': [], 'nodes': [], 'inters': []},
                 'py': {'geo': [], 'unit_pm': UNIT_PM, 'segment': [0, len(links)]}, 'err': repr(exc)[:300]}
        e['names'] = names
        out.append(e)
    return out


def tally(events, ev):
    applied = {}
    for e in events:
        if e['kind'] != 'run':
            continue
        for st in e['steps']:
            nm = e['names'][st['link'] - 1]
            a = applied.setdefault(nm, [0, 0])
            a[0] += 1
            a[1] += len(st['matches'])
        if sum(len(s['matches']) for s in e['steps']) >= 1:
            ev.nontrivial_case([e['M'], e['names'], e.get('origin')])
    return applied


GEO_CLASSES = ['angle:0', 'angle:90', 'angle:180', 'angle:other', 'dih:0', 'dih:90', 'dih:-90', 'dih:180', 'dih:other',
               'dihp:0', 'dihp:90', 'dihp:-90', 'dihp:180', 'dihp:other', 'dist:value']


def run(tier, seed, ev, vd):
    ev.rule = ('Order table: every pair of orders (integers -2..2, 1-3 arrows/stars) x resid pairs. Generated runs: random molecules of 2-5 '
               'residues (gaps, second chain with overlapping numbering, cross-links, atoms carrying modifications, random / planar / grid / '
               'collinear lattice positions) x 1-4 links from a 33-link feature pool (themed so that adders, overriders and removers meet). '
               'Real runs: tier-0 structures through the real pipeline up to DoAverageBead x every link of the shipped force field, cut '
               'into segments of consecutive links. Non-trivial run = at least one placement applied; distinct by (molecule, link list).')
    ev.assumptions = [
        'generated links are built as Link objects (the .ff grammar is C13); real links are the parsed shipped libraries',
        'non-edges only with an order-0 anchor and a numeric partner order; links whose own replace changes an attribute they match on '
        'are not generated, and a shipped link doing so would be listed as not expressible',
        'positions are on an integer lattice (generated: 100 pm, real molecules: bead positions snapped to 10 pm before DoLinks); TLC '
        'computes exact integer invariants of the matched atoms (squared distance; u.v, |u|^2, |v|^2; triple and normal products with the '
        'class 0/90/-90/180/other); sqrt, acos, atan2 and the printf-style formatting of the link are evaluated in Python on those '
        'integers and compared with the value of the real code: %g relative on distances, %g degree on angles, half a unit of the last '
        'printed digit more for formatted values; +180 and -180 degrees are the same dihedral' % (R.DIST_RTOL, R.ANGLE_TOL),
        'angles of coincident atoms / dihedrals of collinear triples are not defined by the statement: TLC marks them degenerate and '
        'the value is not compared',
        'final table compared as a bag (order of interactions is not part of the statement); node attributes as sets of pairs',
        'link features are declarations (ForceField.has_feature) and condition nothing; log entries and citations are not modelled']
    quick = tier == 'quick'
    # for ALL integers (residue numbers, offsets, arrow / star counts) Apalache proves: implementation-shaped relation =
    # documented matrix, symmetry, same order => same residue (spec/LinksOrderApa.tla); TLC's ApaIsTheSame ties those typed
    # copies to the operators of Links.tla on every row of the table below
    from . import apalache
    apa = apalache.check_init_invariant('LinksOrderApa', 'Inv')
    if not apa['ok']:
        raise tlc.MachineryError('LinksOrderApa: Apalache refutes conjunct %s of Inv' % apa['violated_conjunct'])
    ev.extra['apalache'] = dict(apa, note='initial-state invariant over unbounded integers')
    res = tlc.run('LinksOrder', 'SPECIFICATION Spec\nINVARIANT OpIsDoc\nINVARIANT Symmetric\nINVARIANT SameOrderSameResidue\n'
                  'INVARIANT ApaIsTheSame\n',
                  consts={'MaxNum': '2', 'MaxArrow': '3', 'Resids': '1..5' if quick else '-1..6'}, dump=True, timeout=1800)
    if res.violated:
        raise tlc.MachineryError('LinksOrder violates ' + res.violated)
    ev.add_tlc('TAB LinksOrder', res)
    states = list(res.states())
    with mp.Pool(tlc.NCPU) as pool:
        outs = pool.map(_order_rows, common.chunks(states, tlc.NCPU))
    for n, bad in outs:
        ev.traces += n
        ev.evaluations += n
        for b in bad:
            vd.violation('replay-mismatch', b, 'match_order: documented %s, implementation %s' % (b['expected'], b['got']))
    ev.exhaustive = True
    check_invalid_orders(vd, ev)
    # ---- real force fields on real molecules: recording runs in a pool while the generated family is recorded
    jobs = R.make_jobs(tier, seed)
    nruns = 480 if quick else 16000
    with mp.Pool(tlc.NCPU) as pool:
        real_async = pool.map_async(R.real_job, jobs, chunksize=1)
        parts = pool.map(_run_chunk, [(nruns // tlc.NCPU, seed * 9973 + i) for i in range(tlc.NCPU)])
        reals = real_async.get()
    events = [e for p in parts for e in p]
    real_events = [e for r in reals for e in r['events']]
    verdicts, stats = R.judge_events(events + real_events, ev, vd, label='TRACE Trace_Links (generated + real runs)')
    applied = tally(events, ev)
    tally(real_events, ev)
    ev.extra['per_link_(times_tried,placements_applied)'] = applied
    ev.extra['geometry_values_by_class'] = dict(stats)
    never = [L['name'] for L in link_pool() if applied.get(L['name'], [0, 0])[1] == 0]
    missing = [c for c in GEO_CLASSES if not stats.get(c)]
    if (never or missing) and not quick:
        raise tlc.MachineryError('vacuous: links never applied: %s; geometry classes never seen: %s' % (never, missing))
    report_real(reals, ev, quick)
    e0 = next(e for e in events if sum(len(s['matches']) for s in e['steps']) >= 2 and e['py']['geo'])
    ev.sample({'kind': 'recorded DoLinks run judged by TLC', 'links': e0['names'], 'molecule_nodes': e0['M']['nodes'],
               'edges': e0['M']['edges'], 'steps': [{'link': s['link'], 'matches': s['matches']} for s in e0['steps']],
               'final': e0['final']['inters'], 'geometry_values': e0['py']['geo']})
    r0 = next((e for e in real_events if sum(len(s['matches']) for s in e['steps']) >= 2), None)
    if r0:
        ev.sample({'kind': 'segment of a real DoLinks run judged by TLC', 'origin': r0['origin'], 'links': r0['names'],
                   'beads': len(r0['M']['nodes']), 'steps': [{'link': s['link'], 'placements': len(s['matches']), 'first': s['matches'][:2]} for s in r0['steps']],
                   'interactions_before': len(r0['M']['inters']), 'interactions_after': len(r0['final']['inters'])})


def report_real(reals, ev, quick):
    rows, skipped, applied_by_ff = [], {}, {}
    for r in reals:
        job = r['job']
        if r.get('error'):
            raise tlc.MachineryError('real pipeline: %s (%s)' % (r['error'], job))
        for name, why in r['skipped']:
            skipped.setdefault(job['ff'], {})[name] = why
        tot = applied_by_ff.setdefault(job['ff'], [0] * r['links_judged'])
        for m in r['molecules']:
            if 'skipped' in m:
                raise tlc.MachineryError('real molecule not expressible: %s (%s)' % (m['skipped'], job))
            for i, c in enumerate(m['per_link']):
                tot[i] += c
        rows.append({'structure': job['struct'], 'force_field': job['ff'],
                     'variant': {k: job[k] for k in job if k not in ('struct', 'ff', 'seg_len')},
                     'beads': [m['beads'] for m in r['molecules']], 'links_in_force_field': r['links_total'], 'links_judged': r['links_judged'],
                     'placements_applied': sum(m.get('placements', 0) for m in r['molecules']),
                     'geometry_values_checked': sum(m.get('geometry_values', 0) for m in r['molecules']), 'segments': len(r['events'])})
    ev.extra['real_runs'] = rows
    ev.extra['real_links_not_expressible_(skipped,_listed)'] = {ff: {'count': len(d), 'links': d} for ff, d in skipped.items()} or {'count': 0}
    names = {r['job']['ff']: r['names'] for r in reals}
    ev.extra['real_links_applied_at_least_once'] = {ff: '%d of %d' % (sum(1 for c in tot if c), len(tot)) for ff, tot in applied_by_ff.items()}
    ev.extra['real_links_never_applied'] = {ff: [names[ff][i] for i, c in enumerate(tot) if not c] for ff, tot in applied_by_ff.items()}
    if not any(row['placements_applied'] for row in rows):
        raise tlc.MachineryError('vacuous: no placement applied in any real run')


def replay(sc):
    if sc.get('kind') == 'run' and sc.get('origin'):
        r = R.real_job(sc['origin'])
        seg = sc['py']['segment']
        print('real job', sc['origin'])
        for e in r['events']:
            if e['py']['segment'] == seg and e['origin'].get('molecule') == sc['origin'].get('molecule'):
                print('links              :', e['names'])
                print('matches per link now:', [(s['link'], s['matches']) for s in e['steps']])
                print('recorded            :', [(s['link'], s['matches']) for s in sc['steps']])
                print('final now == recorded:', e['final'] == sc['final'])
    elif sc.get('kind') == 'run':
        names = sc.get('names') or []
        byname = {L['name']: L for L in link_pool()}
        e = run_real(sc['M'], [byname[n] for n in names] if names and all(n in byname for n in names) else [dict(L, name='?') for L in sc['links']])
        print('matches per link now:', [(s['link'], s['matches']) for s in e['steps']])
        print('final now           :', e['final']['inters'], e['py']['geo'])
        print('recorded            :', sc['final']['inters'], sc.get('py', {}).get('geo'))
    else:
        print(sc)
    return 0


def selftest(seed):
    from . import apalache
    _src = open(os.path.join(tlc.SPEC_DIR, 'LinksOrderApa.tla')).read()
    _mut = _src.replace('THEN IF p2.k = "num" /\\ p2.v = 0 THEN Sgn(s1 - s2) = Sgn(Signed(p1))', 'THEN IF p2.k = "num" /\\ p2.v = 0 THEN Sgn(s2 - s1) = Sgn(Signed(p1))')
    assert _mut != _src
    _r = apalache.check_init_invariant('LinksOrderApa', 'Inv', text=_mut)
    assert not _r['ok'], 'Apalache accepted a mutated order relation'
    print('selftest C05: Apalache refutes the mutated order relation (conjunct %s of Inv)' % _r['violated_conjunct'])
    import copy
    events = _run_chunk((60, seed))
    good = [e for e in events if sum(len(s['matches']) for s in e['steps']) >= 2 and not e.get('err')]
    withgeo = [e for e in good if any(g['kind'] in ('angle', 'dih', 'dihp') for g in e['py']['geo'])]
    modlinks = ('mods-list', 'mods-str', 'mods-choice', 'mods-list-repeated', 'mods-empty-replace')
    withmods = [e for e in good if any(n in modlinks and e['steps'][i]['matches'] for i, n in enumerate(e['names']))]
    b1 = copy.deepcopy(good[0])
    st = next(s for s in b1['steps'] if s['matches'])
    st['matches'] = st['matches'][1:]                                    # a fitting placement not applied
    b2 = copy.deepcopy(good[1])
    b2['final']['inters'] = b2['final']['inters'][:-1] if b2['final']['inters'] else [{'type': 'x', 'atoms': [0], 'params': [], 'ver': 0, 'meta': []}]
    b3 = copy.deepcopy(withgeo[0])                                       # a geometry-derived value off by one degree
    g = next(x for x in b3['py']['geo'] if x['kind'] in ('angle', 'dih', 'dihp'))
    g['value'] = g['value'] + 1.0 if isinstance(g['value'], float) else '%.2f' % (float(g['value']) + 1.0)
    b4 = copy.deepcopy(withmods[0])                                      # the molecule's modifications changed after the run
    i = next(i for i, n in enumerate(b4['names']) if n in modlinks and b4['steps'][i]['matches'])
    key = next(nd['key'] for nd in b4['links'][i]['nodes'] if nd['mods']['k'] != 'absent')
    atom = dict(map(tuple, b4['steps'][i]['matches'][0]))[key]
    for part in (b4['M']['nodes'], b4['final']['nodes']) + tuple(s['before'] for s in b4['steps']):
        for nd in part:
            if nd['id'] == atom:
                nd['mods'] = [['prot'], ['prot'], ['other']]
    rjob = dict(R.make_jobs('quick', seed)[0], seg_len=3)
    real = R.real_job(rjob)['events']
    rgood = next(e for e in real if sum(len(s['matches']) for s in e['steps']) >= 2)
    b5 = copy.deepcopy(rgood)                                            # real run: one placement of a shipped link dropped
    st = next(s for s in b5['steps'] if s['matches'])
    st['matches'] = st['matches'][:-1]
    b6 = copy.deepcopy(rgood)                                            # real run: a placement on the wrong residue pair
    st = next(s for s in b6['steps'] if len(s['matches']) >= 2 and len(s['matches'][0]) >= 2)
    st['matches'][0][0][1], st['matches'][1][0][1] = st['matches'][1][0][1], st['matches'][0][0][1]
    ev = common.Evidence(PID, 'quick', seed)
    vd = common.Verdicts(PID, ev)
    batch = [good[2], withgeo[0], withmods[0], rgood, b1, b2, b3, b4, b5, b6]
    verdicts, _ = R.judge_events(batch, ev, vd, nproc=5)
    print('selftest C05: untouched runs:', verdicts[:4])
    print('selftest C05: tampered runs :', [v[:70] for v in verdicts[4:]], '(mods atom %s key %s)' % (atom, key))
    for k, p, d in vd.violations:
        os.path.exists(p) and os.remove(p)
    assert verdicts[:4] == ['ok'] * 4, verdicts[:4]
    assert all(v != 'ok' for v in verdicts[4:]), verdicts[4:]
    assert verdicts[6].startswith('geometry-parameter-differs'), verdicts[6]
    return 0
