"""C05 - links are applied at exactly the places where they fit.

spec/Links.tla        MatchOrderOp (implementation-shaped) / MatchOrderDoc (documented matrix); Fits(L, M): attributes
                      (equality, Choice, NotDefinedOrNot), required AND absent bonds, residue orders, non-edges, patterns,
                      molecule-level conditions; ApplyPlacement: replace, remove-matching, add-or-replace by
                      (type, atoms, version), geometry-derived parameters on an integer lattice
spec/LinksOrder.tla   TAB model of the order relation (OpIsDoc, Symmetric)
spec/Trace_Links.tla  TLC judges recorded runs of the real DoLinks.run_molecule (matches per link from an interposed
                      match_link, node attributes seen by each link, final interaction table) and rows of match_order

spec -> code: every row of the order table is replayed into the real match_order (including the ValueError set).
code -> spec: generated molecules x ordered link lists over a feature pool; every placement the real code applies must
be in Fits (sound), every element of Fits must be applied (complete), the final table must equal the fold of
ApplyPlacement in the recorded order (later links override earlier ones; nothing unjustified)."""
import itertools
import multiprocessing as mp
import random

from . import common, tlc

PID = 'C05'


# ------------------------------------------------------------------ order table
def order_py(o):
    if o['k'] == 'num':
        return o['v']
    return {'gt': '>', 'lt': '<', 'star': '*'}[o['k']] * o['v']


def _order_rows(states):
    from vermouth.processors.do_links import match_order
    bad, n = [], 0
    for st in states:
        n += 1
        try:
            got = bool(match_order(order_py(st['o1']), st['r1'], order_py(st['o2']), st['r2']))
        except Exception as exc:      # noqa
            got = 'exception %r' % (exc,)
        if got != st['res']:
            bad.append({'table': 'order', 'o1': st['o1'], 'r1': st['r1'], 'o2': st['o2'], 'r2': st['r2'], 'expected': st['res'], 'got': got})
    return n, bad


INVALID_ORDERS = [True, False, 1.5, '', '><', '+-', 'x', '>x', [], None, -0.5]
VALID_ORDERS = [0, 1, -2, 2.0, '>', '>>', '<', '*', '**', ('>', '>')]


def check_invalid_orders(vd, ev):
    from vermouth.processors.do_links import match_order
    for bad_o in INVALID_ORDERS:
        for other in (0, '>'):
            for args in ((bad_o, 1, other, 2), (other, 1, bad_o, 2)):
                ev.evaluations += 1
                try:
                    match_order(*args)
                    vd.violation('invalid-order-accepted', {'args': common.jsonable(args)}, 'match_order%r did not raise ValueError' % (args,))
                except ValueError:
                    pass
                except Exception as exc:      # noqa
                    vd.violation('invalid-order-wrong-exception', {'args': common.jsonable(args)}, repr(exc))
    for o in VALID_ORDERS:
        ev.evaluations += 1
        try:
            match_order(o, 1, 0, 1)
        except Exception as exc:      # noqa
            vd.violation('valid-order-rejected', {'order': common.jsonable(o)}, repr(exc))


# ------------------------------------------------------------------ molecules and links
def pred(key, kind, *vals):
    return {'key': key, 'kind': kind, 'vals': [str(v) for v in vals]}


def make_molecule(rng):
    """Abstract molecule: residues of BB (+ SC1 (+ SC2)); resids with gaps / repeated in another chain; extra bonds."""
    nres = rng.randint(2, 5)
    nodes, edges, pos = [], [], []
    resid = rng.choice([1, 1, 5, 40])
    chain = 'A'
    nid = rng.choice([0, 0, 3, 10])
    bbs = []
    prev_bb = None
    for r in range(nres):
        if r and rng.random() < 0.25:
            resid += rng.choice([2, 3])          # numbering gap
        elif r:
            resid += 1
        if r and rng.random() < 0.15:
            chain = 'B'
            if rng.random() < 0.5:
                resid = 1
        resname = rng.choice(['ALA', 'GLY', 'LYS', 'LYS', 'CYS'])
        ss = rng.choice(['H', 'C'])
        names = ['BB'] + (['SC1'] if resname != 'GLY' else []) + (['SC2'] if resname == 'LYS' and rng.random() < 0.6 else [])
        ids = []
        for name in names:
            attrs = [['atomname', name], ['resname', resname], ['chain', chain], ['cgsecstruct', ss]]
            if rng.random() < 0.3:
                attrs.append(['mark', rng.choice(['x', 'y'])])
            nodes.append({'id': nid, 'resid': resid, 'attrs': attrs})
            pos.append([nid, rng.randint(-6, 6) * 100, rng.randint(-6, 6) * 100, rng.randint(-6, 6) * 100])
            ids.append(nid)
            nid += rng.choice([1, 1, 2])
        if prev_bb is not None and rng.random() < 0.9:
            edges.append([prev_bb, ids[0]])
        for a, b in zip(ids, ids[1:]):
            if rng.random() < 0.9:
                edges.append([a, b])
        if len(ids) == 3 and rng.random() < 0.5:
            edges.append([ids[0], ids[2]])
        prev_bb = ids[0]
        bbs.append(ids[0])
    if len(bbs) >= 3 and rng.random() < 0.3:          # cross-link / cycle
        a, b = rng.sample(bbs, 2)
        if [a, b] not in edges and [b, a] not in edges:
            edges.append([min(a, b), max(a, b)])
    rng.shuffle(edges)          # bond creation order (= adjacency iteration order) is arbitrary
    meta = [['moltype', 'mol']] + ([['cter', 'yes']] if rng.random() < 0.5 else [])
    inters = []
    if rng.random() < 0.6 and len(bbs) >= 2:
        inters.append({'type': 'bonds', 'atoms': [bbs[0], bbs[1]], 'params': [['p', '1'], ['p', '0.35']], 'ver': 0})
    return {'nodes': nodes, 'edges': edges, 'meta': meta, 'pos': pos, 'inters': inters}


def num(v):
    return {'k': 'num', 'v': v}


def link_pool(rng):
    """Abstract links; each feature of the statement is the sole reason for a placement to fail in some link."""
    def node(key, order, *preds):
        name = key.lstrip('+-><*')
        return {'key': key, 'order': order, 'preds': [pred('atomname', 'eq', name)] + list(preds)}

    def inter(t, atoms, params, ver=0):
        return {'type': t, 'atoms': atoms, 'params': params, 'ver': ver}
    P = lambda *x: [['p', str(v)] for v in x]      # noqa: E731
    pool = []
    # backbone bond with geometry-derived length, replaced by a later link for helices
    pool.append({'name': 'bb-bond', 'nodes': [node('BB', num(0)), node('+BB', num(1))], 'edges': [['BB', '+BB']],
                 'inters': [inter('bonds', ['BB', '+BB'], [['p', '1'], ['dist', 'BB', '+BB'], ['p', '1250']])]})
    pool.append({'name': 'bb-bond-helix', 'nodes': [node('BB', num(0), pred('cgsecstruct', 'eq', 'H')), node('+BB', num(1), pred('cgsecstruct', 'eq', 'H'))],
                 'edges': [['BB', '+BB']], 'inters': [inter('bonds', ['BB', '+BB'], P(1, 0.31, 9999))]})
    pool.append({'name': 'angle-order', 'nodes': [node('-BB', num(-1)), node('BB', num(0)), node('+BB', num(1))],
                 'edges': [['-BB', 'BB'], ['BB', '+BB']], 'inters': [inter('angles', ['-BB', 'BB', '+BB'], P(2, 127, 20))]})
    pool.append({'name': 'angle-arrows', 'nodes': [node('<BB', {'k': 'lt', 'v': 1}), node('BB', num(0)), node('>BB', {'k': 'gt', 'v': 1})],
                 'edges': [['<BB', 'BB'], ['BB', '>BB']], 'inters': [inter('angles', ['<BB', 'BB', '>BB'], P(10, 100, 5), 1)]})
    pool.append({'name': 'star-bridge', 'nodes': [node('SC1', num(0), pred('resname', 'eq', 'CYS')), node('*SC1', {'k': 'star', 'v': 1}, pred('resname', 'eq', 'CYS'))],
                 'edges': [], 'inters': [inter('constraints', ['SC1', '*SC1'], P(1, 0.24))]})
    pool.append({'name': 'choice', 'nodes': [node('BB', num(0), pred('resname', 'in', 'ALA', 'LYS')), node('SC1', num(0))],
                 'edges': [['BB', 'SC1']], 'inters': [inter('bonds', ['BB', 'SC1'], P(1, 0.27, 7500))],
                 'replaces': [{'key': 'SC1', 'attr': 'atype', 'value': 'Q5'}]})
    pool.append({'name': 'notdef', 'nodes': [node('BB', num(0), pred('mark', 'notdef', 'x')), node('+BB', num(1))],
                 'edges': [['BB', '+BB']], 'inters': [inter('exclusions', ['BB', '+BB'], [])]})
    pool.append({'name': 'non-edge', 'nodes': [node('-BB', num(-1)), node('BB', num(0)), node('+BB', num(1))],
                 'edges': [['-BB', 'BB'], ['BB', '+BB']], 'nonedges': [{'from': 'BB', 'order': 0, 'preds': [pred('atomname', 'eq', 'SC1')]}],
                 'inters': [inter('angles', ['-BB', 'BB', '+BB'], P(2, 134, 25))]})
    pool.append({'name': 'non-edge-next', 'nodes': [node('BB', num(0)), node('SC1', num(0))], 'edges': [['BB', 'SC1']],
                 'nonedges': [{'from': 'BB', 'order': 1, 'preds': [pred('atomname', 'eq', 'BB'), pred('resname', 'eq', 'GLY')]}],
                 'inters': [inter('bonds', ['BB', 'SC1'], P(1, 0.4, 100), 2)]})
    pool.append({'name': 'pattern', 'nodes': [node('BB', num(0)), node('+BB', num(1))], 'edges': [['BB', '+BB']],
                 'patterns': [[{'key': 'BB', 'preds': [pred('cgsecstruct', 'eq', 'H')]}, {'key': '+BB', 'preds': [pred('cgsecstruct', 'eq', 'C')]}],
                              [{'key': 'BB', 'preds': [pred('resname', 'eq', 'GLY')]}]],
                 'inters': [inter('dihedral_restraints', ['BB', '+BB'], P(1, 2, 3))]})
    pool.append({'name': 'molmeta', 'nodes': [node('BB', num(0)), node('SC1', num(0))], 'edges': [['BB', 'SC1']],
                 'molmeta': [pred('cter', 'eq', 'yes')], 'inters': [inter('bonds', ['BB', 'SC1'], P(1, 0.5, 50), 3)]})
    pool.append({'name': 'remove', 'nodes': [node('BB', num(0)), node('+BB', num(1))], 'edges': [['BB', '+BB']],
                 'removes': [{'type': 'bonds', 'atoms': ['BB', '+BB'], 'params': []}], 'inters': []})
    pool.append({'name': 'no-bond-required', 'nodes': [node('BB', num(0)), node('++BB', num(2))], 'edges': [],
                 'inters': [inter('pairs', ['BB', '++BB'], P(1))]})
    pool.append({'name': 'delete-sc2', 'nodes': [node('SC1', num(0)), node('SC2', num(0), pred('resname', 'eq', 'LYS'))], 'edges': [['SC1', 'SC2']],
                 'deletes': ['SC2'], 'inters': []})
    return pool


def build_real(M, links):
    import numpy as np
    import vermouth
    from vermouth.molecule import Molecule, Link, Interaction, Choice, NotDefinedOrNot, ParamDistance, DeleteInteraction
    from vermouth.forcefield import ForceField
    ff = ForceField(name='verif_c05')
    mol = Molecule(force_field=ff, nrexcl=1)
    positions = {p[0]: np.array(p[1:], dtype=float) / 1000.0 for p in M['pos']}
    for n in M['nodes']:
        mol.add_node(n['id'], resid=n['resid'], position=positions[n['id']], **{k: v for k, v in n['attrs']})
    mol.add_edges_from(M['edges'])
    mol.meta.update({k: v for k, v in M['meta']})
    for it in M['inters']:
        mol.interactions[it['type']].append(Interaction(atoms=tuple(it['atoms']), parameters=[p[1] for p in it['params']],
                                                        meta={'version': it['ver']} if it['ver'] else {}))

    def conv_preds(preds):
        out = {}
        for p in preds:
            if p['kind'] == 'eq':
                out[p['key']] = p['vals'][0]
            elif p['kind'] == 'in':
                out[p['key']] = Choice(list(p['vals']))
            else:
                out[p['key']] = NotDefinedOrNot(p['vals'][0])
        return out

    def conv_order(o):
        return o['v'] if o['k'] == 'num' else {'gt': '>', 'lt': '<', 'star': '*'}[o['k']] * o['v']
    for L in links:
        link = Link(force_field=ff)
        for nd in L['nodes']:
            attrs = conv_preds(nd['preds'])
            attrs['order'] = conv_order(nd['order'])
            link.add_node(nd['key'], **attrs)
        link.add_edges_from(L.get('edges', []))
        for ne in L.get('nonedges', []):
            a = conv_preds(ne['preds'])
            a['order'] = ne['order']
            link.non_edges.append([ne['from'], a])
        for pat in L.get('patterns', []):
            link.patterns.append([[x['key'], conv_preds(x['preds'])] for x in pat])
        link.molecule_meta.update(conv_preds(L.get('molmeta', [])))
        for it in L.get('inters', []):
            params = [ParamDistance([p[1], p[2]]) if p[0] == 'dist' else p[1] for p in it['params']]
            link.interactions.setdefault(it['type'], []).append(
                Interaction(atoms=tuple(it['atoms']), parameters=params, meta={'version': it['ver']} if it['ver'] else {}))
        for rm in L.get('removes', []):
            link.removed_interactions.setdefault(rm['type'], []).append(
                DeleteInteraction(atoms=tuple(rm['atoms']), atom_attrs=[{} for _ in rm['atoms']], parameters=[p[1] for p in rm['params']], meta={}))
        for rp in L.get('replaces', []):
            link.nodes[rp['key']].setdefault('replace', {})[rp['attr']] = rp['value']
        for key in L.get('deletes', []):
            link.nodes[key].setdefault('replace', {})['atomname'] = None
        ff.links.append(link)
    return mol


ATTR_KEYS = ['atomname', 'resname', 'chain', 'cgsecstruct', 'mark', 'atype']


def project_nodes(mol, M):
    """Node attributes in the shape of the model (order of the original attribute lists, then new keys)."""
    out = []
    for n in M['nodes']:
        if n['id'] not in mol:
            out.append(None)
            continue
        d = mol.nodes[n['id']]
        attrs = [[k, str(d[k])] for k, _ in n['attrs']]
        for k in ATTR_KEYS:
            if k in d and k not in [a[0] for a in attrs]:
                attrs.append([k, str(d[k])])
        out.append({'id': n['id'], 'resid': d['resid'], 'attrs': attrs})
    return out


def run_real(M, links):
    """Run the real DoLinks with match_link interposed. Returns steps and final table."""
    import vermouth.processors.do_links as dl
    mol = build_real(M, links)
    steps = []
    orig = dl.match_link
    link_index = {id(l): i + 1 for i, l in enumerate(mol.force_field.links)}

    def spy(molecule, link):
        step = {'link': link_index[id(link)], 'before': [x for x in project_nodes(molecule, M) if x is not None], 'matches': []}
        steps.append(step)
        for match in orig(molecule, link):
            step['matches'].append(sorted([k, v] for k, v in match.items()))
            yield match
    dl.match_link = spy
    try:
        dl.DoLinks().run_molecule(mol)
    finally:
        dl.match_link = orig
    final_inters = []
    for t, lst in mol.interactions.items():
        for it in lst:
            params = []
            for p in it.parameters:
                if isinstance(p, float) or hasattr(p, 'dtype'):
                    d2 = float(p) ** 2 * 1e6
                    if abs(d2 - round(d2)) > 1e-3 * max(1.0, d2):
                        params.append(['d2', 'non-lattice:%r' % float(p)])
                    else:
                        params.append(['d2', str(int(round(d2)))])
                else:
                    params.append(['p', str(p)])
            final_inters.append({'type': t, 'atoms': list(it.atoms), 'params': params, 'ver': it.meta.get('version', 0)})
    return steps, {'ids': sorted(mol.nodes), 'inters': final_inters}


def fill_link(L):
    out = {'nodes': L['nodes'], 'edges': L.get('edges', []), 'nonedges': L.get('nonedges', []), 'patterns': L.get('patterns', []),
           'molmeta': L.get('molmeta', []), 'inters': L.get('inters', []), 'removes': L.get('removes', []),
           'replaces': L.get('replaces', []), 'deletes': L.get('deletes', [])}
    return out


def self_replacing(L):
    """The link's own replace touches an attribute it matches on (outcome depends on the lazy matcher: not generated)."""
    keys = {p['key'] for n in L['nodes'] for p in n['preds']}
    return any(r['attr'] in keys for r in L.get('replaces', []))


def _run_chunk(args):
    n, seed = args
    rng = random.Random(seed)
    out = []
    for _ in range(n):
        M = make_molecule(rng)
        pool = link_pool(rng)
        k = rng.randint(1, 4)
        links = [rng.choice(pool) for _ in range(k)]
        # node deletion happens after all matches of a link; interactions of deleted atoms disappear with them
        try:
            steps, final = run_real(M, links)
            err = ''
        except Exception as exc:      # noqa
            steps, final, err = [], {'ids': [], 'inters': []}, repr(exc)[:300]
        out.append({'kind': 'run', 'M': M, 'links': [fill_link(L) for L in links], 'names': [L['name'] for L in links],
                    'steps': steps, 'final': final, 'err': err})
    return out


def _judge(shard):
    work = tlc.scratch('c05_')
    tf = tlc.write_json(work, 'trace.json', [{k: e[k] for k in e if k not in ('names', 'err')} for e in shard])
    res = tlc.run('Trace_Links', 'SPECIFICATION Spec\n', dump=True, env={'TRACE_FILE': tf}, workdir=work, workers=1, timeout=3400)
    return res.distinct, res.generated, {st['tid']: st['verdict'] for st in res.states() if st['verdict'] != 'pending'}


def judge_events(events, ev, vd):
    shards = common.chunks(events, tlc.NCPU)
    with mp.Pool(len(shards)) as pool:
        outs = pool.map(_judge, shards)
    applied = {}
    for shard, (d, g, verdicts) in zip(shards, outs):
        ev.states += d
        ev.transitions += g
        for i, e in enumerate(shard, 1):
            ev.traces += 1
            ev.evaluations += 1
            v = verdicts.get(i, 'no-verdict')
            if e.get('err'):
                v = 'DoLinks raised ' + e['err']
            if e['kind'] == 'run':
                for st in e['steps']:
                    nm = e['names'][st['link'] - 1]
                    a = applied.setdefault(nm, [0, 0])
                    a[0] += 1
                    a[1] += len(st['matches'])
                if sum(len(s['matches']) for s in e['steps']) >= 1:
                    ev.nontrivial_case([e['M'], e['names']])
            if v != 'ok':
                vd.violation('trace-rejected', e, '%s: %s' % (e.get('names', e['kind']), v))
    return applied


def run(tier, seed, ev, vd):
    ev.rule = ('Order table: every pair of orders (integers -2..2, 1-3 arrows/stars) x resid pairs; runs: random molecules of 2-5 '
               'residues (gaps, second chain with overlapping numbering, cross-links) x 1-4 links from a 14-link feature pool. '
               'Non-trivial run = at least one placement applied; distinct by (molecule, link list).')
    ev.assumptions = ['links are built as Link objects (the .ff grammar is C13)', 'non-edges only with an order-0 anchor and a numeric '
                      'partner order; links whose own replace changes an attribute they match on are not generated',
                      'geometry: distance effector on a 100 pm lattice, compared through the squared distance (1e-3 relative); angle and '
                      'dihedral effectors not generated', 'final table compared as a bag (order of interactions is not part of the statement)']
    quick = tier == 'quick'
    res = tlc.run('LinksOrder', 'SPECIFICATION Spec\nINVARIANT OpIsDoc\nINVARIANT Symmetric\nINVARIANT SameOrderSameResidue\n',
                  consts={'MaxNum': '2', 'MaxArrow': '3', 'Resids': '1..5' if quick else '-1..6'}, dump=True, timeout=1800)
    if res.violated:
        raise tlc.MachineryError('LinksOrder violates ' + res.violated)
    ev.add_tlc('TAB LinksOrder', res)
    states = list(res.states())
    with mp.Pool(tlc.NCPU) as pool:
        outs = pool.map(_order_rows, common.chunks(states, tlc.NCPU))
    for n, bad in outs:
        ev.traces += n
        ev.evaluations += n
        for b in bad:
            vd.violation('replay-mismatch', b, 'match_order: documented %s, implementation %s' % (b['expected'], b['got']))
    ev.exhaustive = True
    check_invalid_orders(vd, ev)
    nruns = 480 if quick else 16000
    with mp.Pool(tlc.NCPU) as pool:
        parts = pool.map(_run_chunk, [(nruns // tlc.NCPU, seed * 9973 + i) for i in range(tlc.NCPU)])
    events = [e for p in parts for e in p]
    applied = judge_events(events, ev, vd)
    ev.extra['per_link_(times_tried,placements_applied)'] = applied
    never = [k for k, v in applied.items() if v[1] == 0]
    if never and not quick:
        raise tlc.MachineryError('vacuous: links never applied: %s' % never)
    ev.tlc_runs.append({'run': 'TRACE Trace_Links', 'events': len(events)})
    e0 = next(e for e in events if sum(len(s['matches']) for s in e['steps']) >= 2)
    ev.sample({'kind': 'recorded DoLinks run judged by TLC', 'links': e0['names'], 'molecule_nodes': e0['M']['nodes'],
               'edges': e0['M']['edges'], 'steps': [{'link': s['link'], 'matches': s['matches']} for s in e0['steps']],
               'final': e0['final']})


def replay(sc):
    if sc.get('kind') == 'run':
        steps, final = run_real(sc['M'], [dict(L, name='?') for L in sc['links']])
        print('matches per link now:', [(s['link'], s['matches']) for s in steps])
        print('final now           :', final)
        print('recorded            :', sc['final'])
    else:
        print(sc)
    return 0


def selftest(seed):
    events = _run_chunk((12, seed))
    good = [e for e in events if sum(len(s['matches']) for s in e['steps']) >= 2 and not e['err']][:3]
    import copy
    b1 = copy.deepcopy(good[0])
    st = next(s for s in b1['steps'] if s['matches'])
    st['matches'] = st['matches'][1:]                                    # a fitting placement not applied
    b2 = copy.deepcopy(good[1])
    b2['final']['inters'] = b2['final']['inters'][:-1] if b2['final']['inters'] else [{'type': 'x', 'atoms': [0], 'params': [], 'ver': 0}]
    ev = common.Evidence(PID, 'quick', seed)
    vd = common.Verdicts(PID, ev)
    judge_events([good[2], b1, b2], ev, vd)
    assert len(vd.violations) == 2, vd.violations
    print('selftest C05: tampered runs rejected:', [d.split(': ')[-1] for k, p, d in vd.violations])
    import os
    for k, p, d in vd.violations:
        os.path.exists(p) and os.remove(p)
    return 0
