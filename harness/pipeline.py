"""spec/Martinize.tla <-> bin/martinize2: the pipeline (which stages, in which order, for which options).

1. TLC explores the specification for EVERY option vector (all combinations of secondary-structure source, cysteine handling, Go
   model, IDR tuning, position restraints, chain merging, elastic-network unit, water bias, residue numbering, debug files,
   topology output and warning gate) and checks the stage contracts and the order properties (see the module header).
2. spec -> code: for a sample of option vectors TLC dumps Pipeline(o); the vector is turned into a command line, the REAL
   entry() of bin/martinize2 is run in a fresh process with recorders on Processor.run_system and the output functions
   (harness/pipeline_child.py) and the recorded sequence of stages must equal Pipeline(o); the exit status must be 2 exactly
   for gate = "block"; for vectors in Unvalidated the run must end in an exception instead.
The command line is built from the option vector by a fixed table (OPTION_ARGS below): data, not logic.

Not replayed: ss = "dssp" (no DSSP executable in the sandbox)."""
import json
import os
import random
import shutil
import subprocess
import sys
from multiprocessing import Pool

from . import common, tlc, tlaval, cli_c03

INVARIANTS = ['TypeOK', 'ContractOK', 'UnvalidatedIsReal', 'NamingAfterGeometry', 'GateBeforeFinalWrite', 'AtomisticBeforeMapping',
              'CoarseAfterMapping', 'ResidsRestoredLast', 'OneNaming', 'NamedWhenWritten', 'WrittenOrderAtOutput', 'InputOrderKept']

DOMAINS = {'ss': ['none', 'ss', 'collagen'], 'cys': ['auto', 'none', 'thr'], 'go': ['off', 'file', 'gen'], 'idr': [False, True],
           'posres': ['none', 'all', 'backbone'], 'merge': ['none', 'set1', 'set2', 'all'],
           'elastic': ['off', 'molecule', 'all', 'chain', 'regions'], 'wbias': [False, True], 'resid': ['mol', 'input'],
           'dbg': [[], ['graph'], ['repair'], ['canon'], ['graph', 'repair', 'canon']], 'top': [False, True],
           'gate': ['clean', 'allowed', 'block']}

# option value -> command line words (chains of the input: A B C, four residues each)
OPTION_ARGS = {
    'ss': {'none': [], 'ss': ['-ss', 'C' * 78], 'collagen': ['-collagen']},
    'cys': {'auto': [], 'none': ['-cys', 'none'], 'thr': ['-cys', '0.3']},
    'go': {'off': [], 'file': ['-go', 'contacts.out'], 'gen': ['-go']},
    'idr': {False: [], True: ['-idr-tune', '-id-regions', '2:3']},
    'posres': {'none': [], 'all': ['-p', 'all'], 'backbone': ['-p', 'backbone']},
    'merge': {'none': [], 'set1': ['-merge', 'A,B'], 'set2': ['-merge', 'A,B', '-merge', 'C,D'], 'all': ['-merge', 'all']},
    'elastic': {'off': [], 'molecule': ['-elastic'], 'all': ['-elastic', '-eunit', 'all'], 'chain': ['-elastic', '-eunit', 'chain'],
                'regions': ['-elastic', '-eunit', '1:2,3:4']},
    'wbias': {False: [], True: ['-water-bias', '-water-bias-eps', 'C:2.1', 'idr:1.0']},
    'resid': {'mol': ['-resid', 'mol'], 'input': ['-resid', 'input']},
    'top': {False: [], True: ['-o', 'topol.top']},
    # 'clean' and 'allowed' tolerate whatever else warns (-collagen without collagen parameters, contacts outside the structure);
    # -scfix is a sure warning (the option is deprecated)
    'gate': {'clean': ['-maxwarn', '100'], 'allowed': ['-scfix', '-maxwarn', '100'], 'block': ['-scfix']},
}
DBG_ARGS = {'graph': ['-write-graph', 'graph.pdb'], 'repair': ['-write-repair', 'repair.pdb'], 'canon': ['-write-canon', 'canon.pdb']}


def to_tla_vector(v):
    parts = []
    for k in DOMAINS:
        x = v[k]
        if k == 'dbg':
            parts.append('dbg |-> {%s}' % ', '.join('"%s"' % f for f in x))
        elif isinstance(x, bool):
            parts.append('%s |-> %s' % (k, 'TRUE' if x else 'FALSE'))
        else:
            parts.append('%s |-> "%s"' % (k, x))
    return '[' + ', '.join(parts) + ']'


def command_line(v):
    args = ['-f', 'in.pdb', '-x', 'cg.pdb', '-ff', 'martini3001']
    for k in DOMAINS:
        if k == 'dbg':
            for f in v['dbg']:
                args += DBG_ARGS[f]
        else:
            args += OPTION_ARGS[k][v[k]]
    return args


def sample_vectors(rng, n):
    """Every value of every option at least once, every pair of (go, elastic, wbias, merge, gate) values, then random vectors."""
    out, seen = [], set()

    def add(v):
        key = json.dumps(v, sort_keys=True)
        if key not in seen:
            seen.add(key)
            out.append(v)
    base = {k: DOMAINS[k][0] for k in DOMAINS}
    add(dict(base))
    for k in DOMAINS:
        for x in DOMAINS[k]:
            v = dict(base)
            v[k] = x
            add(v)
    core = ['go', 'elastic', 'wbias', 'merge', 'gate', 'ss']
    for i, a in enumerate(core):
        for b in core[i + 1:]:
            for x in DOMAINS[a]:
                for y in DOMAINS[b]:
                    v = {k: rng.choice(DOMAINS[k]) for k in DOMAINS}
                    v[a], v[b] = x, y
                    add(v)
    while len(out) < n:
        add({k: rng.choice(DOMAINS[k]) for k in DOMAINS})
    return out[:max(n, 1)] if n < len(out) else out


def expected_sequences(vectors):
    """Pipeline(o), Unvalidated(o), UsageError(o) for each vector, computed by TLC (final states of the dump)."""
    res = tlc.run('Martinize', 'SPECIFICATION Spec\n' + ''.join('INVARIANT %s\n' % i for i in INVARIANTS),
                  consts={'Vectors': '{' + ', '.join(to_tla_vector(v) for v in vectors) + '}'}, dump=True, timeout=1800)
    if res.violated:
        raise tlc.MachineryError('Martinize violates %s on the sampled vectors' % res.violated)
    best = {}
    unv = expected_sequences.unvalidated = getattr(expected_sequences, 'unvalidated', {})
    for st in res.states():
        o = st['o']
        key = json.dumps({k: (sorted(o[k]) if k == 'dbg' else o[k]) for k in DOMAINS}, sort_keys=True)
        unv[key] = bool(st['unv'])
        if key not in best or len(st['done']) > len(best[key]):
            best[key] = list(st['done'])
    return res, best


def _prepare(work):
    os.makedirs(work, exist_ok=True)
    with open(os.path.join(work, 'in.pdb'), 'w') as fh:
        fh.write(cli_c03.multichain_pdb('SWS'))      # chain B (304 atoms) has node keys crossing 512: set order != input order
    return work


def _write_contacts(base):
    """a contact map in the format read_go_map accepts (18 columns, first 'R'; chain in columns 5/9, residue in 6/10, OV flag in 12)"""
    with open(os.path.join(base, 'contacts.out'), 'w') as fh:
        for chain in 'ABC':
            for a, b in ((1, 10), (3, 12), (5, 20), (8, 25), (2, 28)):
                fh.write('R 1 1 XXX %s %d 2 YYY %s %d 6.0 1 0 0 1 0 0 0\n' % (chain, a, chain, b))


def _child(workdir, args, timeout=300):
    env = dict(os.environ)
    env['PYTHONPATH'] = os.pathsep.join([common.VERIF if hasattr(common, 'VERIF') else os.path.dirname(os.path.dirname(__file__)), common.REPO])
    env['VERIF_REPO'] = common.REPO
    try:
        p = subprocess.run([sys.executable, '-W', 'ignore', '-m', 'harness.pipeline_child'] + args, cwd=workdir, env=env,
                           stdout=subprocess.PIPE, stderr=subprocess.DEVNULL, timeout=timeout, text=True)
    except subprocess.TimeoutExpired:
        return {'rc': None, 'err': 'timeout', 'events': []}
    for line in p.stdout.splitlines():
        if line.startswith('PIPELINE-EVENTS '):
            return json.loads(line[len('PIPELINE-EVENTS '):])
    return {'rc': p.returncode, 'err': 'no event line (argument parser exit?)', 'events': []}


def _residue_sequence(path):
    """[(chain, residue name)] in file order, one entry per run of equal (chain, residue number, residue name)"""
    out, last = [], None
    for line in open(path):
        if line.startswith(('ATOM', 'HETATM')):
            key = (line[21], line[22:27], line[17:21].strip())
            if key != last:
                out.append([line[21], line[17:21].strip()])
                last = key
    return out


def _run_vector(job):
    base, idx, v = job
    work = os.path.join(base, 'run%04d' % idx)
    os.makedirs(work)
    shutil.copy(os.path.join(base, 'in.pdb'), work)
    if os.path.exists(os.path.join(base, 'contacts.out')):
        shutil.copy(os.path.join(base, 'contacts.out'), work)
    got = _child(work, command_line(v))
    got['files'] = sorted(f for f in os.listdir(work) if f not in ('in.pdb', 'contacts.out'))
    got['sequence_in'] = _residue_sequence(os.path.join(work, 'in.pdb'))
    got['sequence_out'] = _residue_sequence(os.path.join(work, 'cg.pdb')) if os.path.exists(os.path.join(work, 'cg.pdb')) else None
    shutil.rmtree(work, ignore_errors=True)
    return idx, got


def run_part(tier, seed, ev, vd):
    quick = tier == 'quick'
    rng = random.Random(seed * 7919 + 11)
    # 1. every option vector, contracts and order properties
    full = "{v \\in AllVectors : v.dbg \\in {{}, DbgFiles}}" if not quick else \
        "{v \\in AllVectors : v.dbg \\in {{}, DbgFiles} /\\ v.cys = \"auto\" /\\ v.posres \\in {\"none\", \"all\"} /\\ v.merge \\in {\"none\", \"set2\", \"all\"}}"
    res = tlc.run('Martinize', 'SPECIFICATION Spec\n' + ''.join('INVARIANT %s\n' % i for i in INVARIANTS), consts={'Vectors': full},
                  timeout=3000)
    if res.violated:
        raise tlc.MachineryError('Martinize violates %s' % res.violated)
    ev.add_tlc('MC Martinize (all option vectors)', res)
    # 2. replay
    vectors = sample_vectors(rng, 32 if quick else 400)
    tres, expected = expected_sequences(vectors)
    ev.add_tlc('TAB Martinize (sampled vectors)', tres)
    base = _prepare(tlc.scratch('pipeline_'))
    try:
        _write_contacts(base)
        with Pool(min(tlc.NCPU, 16)) as pool:
            results = dict(pool.imap_unordered(_run_vector, [(base, i, v) for i, v in enumerate(vectors)]))
    finally:
        shutil.rmtree(base, ignore_errors=True)
    stages_seen = set()
    for i, v in enumerate(vectors):
        key = json.dumps({k: (sorted(v[k]) if k == 'dbg' else v[k]) for k in DOMAINS}, sort_keys=True)
        exp = expected[key]
        got = results[i]
        sc = {'family': 'pipeline', 'vector': v, 'command': command_line(v), 'expected': exp, 'got': got}
        ev.traces += 1
        ev.evaluations += 1
        if got['err'] == 'timeout':
            raise tlc.MachineryError('pipeline run timed out: %r' % (command_line(v),))
        if exp == ['UsageError']:
            if got['events']:
                vd.violation('pipeline-order', sc, 'the specification says the argument parser refuses %r, but stages ran: %r' % (command_line(v), got['events'][:5]))
            continue
        unvalidated = expected_sequences.unvalidated[key]
        if unvalidated:
            # named deviation: the run must follow the pipeline up to the stage whose contract fails and raise there
            ok = got['rc'] == -1 and got['events'] == exp[:len(got['events'])] and got['events'] and got['events'][-1].startswith('ComputeWaterBias')
            if not ok:
                vd.violation('pipeline-order', sc, 'unvalidated option vector: expected an exception in ComputeWaterBias after a prefix of %r, got rc=%r %r %r'
                             % (exp, got['rc'], got['err'], got['events']))
            continue
        stages_seen.update(got['events'])
        want = [s for s in exp if s != 'Exit2']
        if got['events'] != want:
            k = next((j for j, (a, b) in enumerate(zip(got['events'], want)) if a != b), min(len(got['events']), len(want)))
            vd.violation('pipeline-order', sc, 'stage sequence differs from Martinize!Pipeline at position %d: expected %r, ran %r (rc=%r %s)'
                         % (k + 1, want[k:k + 3], got['events'][k:k + 3], got['rc'], got['err']))
            continue
        want_rc = 2 if v['gate'] == 'block' else 0
        if got['rc'] != want_rc:
            vd.violation('pipeline-order', sc, 'exit status %r, expected %r (gate = %s) %s' % (got['rc'], want_rc, v['gate'], got['err']))
            continue
        outputs = [f for f in got['files'] if f in ('cg.pdb', 'topol.top') or f.endswith('.itp')]
        if (v['gate'] == 'block') != (not outputs):
            vd.violation('pipeline-order', sc, 'gate = %s but output files present: %r' % (v['gate'], outputs))
            continue
        # Martinize!InputOrderKept: no stage reorders the residues of a chain (virtual sites of a Go model come after them)
        if got.get('sequence_out') is not None:
            want_seq = got['sequence_in']
            have = [r for r in got['sequence_out']]
            if have[:len(want_seq)] != want_seq:
                k = next((j for j, (a, b) in enumerate(zip(have, want_seq)) if a != b), min(len(have), len(want_seq)))
                vd.violation('pipeline-order', sc, 'the residues are written in another order than they were read in: position %d is %r, input has %r'
                             % (k + 1, have[k:k + 3], want_seq[k:k + 3]))
                continue
        ev.nontrivial_case(['pipeline', exp])
    ev.sample({'kind': 'pipeline vector', 'vector': vectors[-1], 'command': command_line(vectors[-1]),
               'expected': expected[json.dumps({k: (sorted(vectors[-1][k]) if k == 'dbg' else vectors[-1][k]) for k in DOMAINS}, sort_keys=True)]})
    ev.extra.setdefault('pipeline', {})['stages_replayed'] = sorted(stages_seen)
    ev.extra['pipeline']['vectors'] = len(vectors)
    missing = {'DoMapping', 'DoLinks', 'ApplyRubberBand', 'GoPipeline', 'NameMolType', 'MergeChains(all)', 'MergeChains(set)', 'RestoreResids',
               'VirtualSiteCreator', 'ComputeWaterBias(auto)', 'ReadGoMap', 'GenerateContactMap', 'WriteTopology', 'FinalWrite'} - stages_seen
    if missing and not vd.count():
        raise tlc.MachineryError('vacuous: stages never replayed: %s' % sorted(missing))


def replay(sc):
    base = _prepare(tlc.scratch('pipeline_'))
    try:
        _write_contacts(base)
        _, got = _run_vector((base, 0, sc['vector']))
    finally:
        shutil.rmtree(base, ignore_errors=True)
    print('command :', ' '.join(sc['command']))
    print('expected:', sc['expected'])
    print('ran     :', got['events'], 'rc', got['rc'], got['err'])
    return 0 if got['events'] == [s for s in sc['expected'] if s != 'Exit2'] else 1


def selftest_part(seed):
    """Binding: a stage sequence with two stages exchanged / one dropped must not equal Pipeline(o)."""
    v = {k: DOMAINS[k][0] for k in DOMAINS}
    v['elastic'] = 'molecule'
    _, expected = expected_sequences([v])
    exp = list(expected.values())[0]
    i, j = exp.index('ApplyRubberBand'), exp.index('NameMolType')
    swapped = list(exp)
    swapped[i], swapped[j] = swapped[j], swapped[i]
    assert swapped != exp and i < j
    # the specification itself rejects the swapped order: NamingAfterGeometry is violated on a mutated module
    src = open(os.path.join(tlc.SPEC_DIR, 'Martinize.tla')).read()
    mutated = src.replace('\\o Elastic(o)\n       \\o Naming(o)', '\\o Naming(o)\n       \\o Elastic(o)').replace('MODULE Martinize', 'MODULE MartinizeMut')
    assert mutated != src.replace('MODULE Martinize', 'MODULE MartinizeMut'), 'mutation did not apply'
    work = tlc.scratch('pipeline_mut_')
    with open(os.path.join(work, 'MartinizeMut.tla'), 'w') as fh:
        fh.write(mutated)
    res = tlc.run('MartinizeMut', 'SPECIFICATION Spec\nINVARIANT NamingAfterGeometry\n', consts={'Vectors': '{' + to_tla_vector(v) + '}'},
                  workdir=work, timeout=600)
    shutil.rmtree(work, ignore_errors=True)
    assert res.violated, 'the mutated specification (naming before the elastic network) was not rejected'
    # a real run compared with the sequence of ANOTHER option vector is rejected
    base = _prepare(tlc.scratch('pipeline_'))
    try:
        _write_contacts(base)
        _, got = _run_vector((base, 0, v))
    finally:
        shutil.rmtree(base, ignore_errors=True)
    assert got['events'] == [s_ for s_ in exp if s_ != 'Exit2'], (got, exp)
    assert got['events'] != swapped
    print('selftest pipeline: real run equals Pipeline(o); exchanged ApplyRubberBand/NameMolType differs; mutated specification violates %s' % res.violated)
