"""C01 - resolution transformation conserves atoms, residues and connectivity  (also produces the C09 events).

spec/Mapping.tla        Placements (induced embeddings matching residue/atom names and the same-residue relation on bonds),
                        order by lowest atom key, ApplyBlock (fresh keys, residue shift of the last particle, constituents and
                        weights, particles built from no atom), InterEdges, UnmappedHeavy, Overlapping; Mean (exact weighted mean)
spec/Trace_Mapping.tla  TLC judges recorded runs of the real DoMapping (+ interposed apply_block_mapping) and DoAverageBead

A synthetic universe of two force fields covers the statement's list: one-to-one, many-to-one, an atom shared between two
particles, a zero-weight atom, a particle built from no atom, a two-residue mapping, unmapped heavy atoms and hydrogens,
overlapping placements; molecules are linear, branched or cyclic residue sequences under identity / reversed / sparse
shuffled node numbering."""
import logging
import multiprocessing as mp
import random

from . import common, tlc

PID = 'C01'

# residue type -> (atoms [(name, element)], internal bonds)
RES = {
    'RA': ([('A1', 'C'), ('A2', 'N')], [(0, 1)]),
    'RB': ([('B1', 'C'), ('B2', 'C'), ('B3', 'O')], [(0, 1), (1, 2)]),
    'RC': ([('C1', 'C'), ('C2', 'C'), ('C3', 'S')], [(0, 1), (1, 2)]),
    'RD': ([('D1', 'C'), ('D2', 'O')], [(0, 1)]),
    'RE': ([('E1', 'P')], []),
    'RF': ([('F1', 'C')], []),
    'RG': ([('G1', 'N')], []),
    'RZ': ([('Z1', 'C')], []),            # no mapping: unmapped heavy atom
}
# abstract mappings
MAPS = [
    {'name': 'RA', 'from': [('A1', 1, 'RA'), ('A2', 1, 'RA')], 'fedges': [('A1', 'A2')],
     'to': [('P1', 1), ('P2', 1)], 'tedges': [('P1', 'P2')], 'inters': [('bonds', ['P1', 'P2'], ['1', '0.3', '500'])],
     'w': [('A1', 'P1', 1), ('A2', 'P2', 1)]},
    {'name': 'RB', 'from': [('B1', 1, 'RB'), ('B2', 1, 'RB'), ('B3', 1, 'RB')], 'fedges': [('B1', 'B2'), ('B2', 'B3')],
     'to': [('BB', 1), ('SC', 1)], 'tedges': [('BB', 'SC')], 'inters': [('bonds', ['BB', 'SC'], ['1', '0.4', '900'])],
     'w': [('B1', 'BB', 1), ('B2', 'BB', 1), ('B3', 'SC', 1)]},
    {'name': 'RC', 'from': [('C1', 1, 'RC'), ('C2', 1, 'RC'), ('C3', 1, 'RC')], 'fedges': [('C1', 'C2'), ('C2', 'C3')],
     'to': [('X', 1), ('Y', 1)], 'tedges': [('X', 'Y')], 'inters': [('constraints', ['X', 'Y'], ['1', '0.2'])],
     'w': [('C1', 'X', 2), ('C2', 'X', 1), ('C2', 'Y', 1), ('C3', 'Y', 1)]},
    {'name': 'RD', 'from': [('D1', 1, 'RD'), ('D2', 1, 'RD')], 'fedges': [('D1', 'D2')],
     'to': [('Q', 1)], 'tedges': [], 'inters': [], 'w': [('D1', 'Q', 1), ('D2', 'Q', 0)]},
    {'name': 'RE', 'from': [('E1', 1, 'RE')], 'fedges': [], 'to': [('PE', 1), ('DUM', 1)], 'tedges': [('PE', 'DUM')],
     'inters': [('bonds', ['PE', 'DUM'], ['1', '0.1', '99'])], 'w': [('E1', 'PE', 1)]},
    {'name': 'RF-RG', 'from': [('F1', 1, 'RF'), ('G1', 2, 'RG')], 'fedges': [('F1', 'G1')],
     'to': [('PF', 1), ('PG', 2)], 'tedges': [('PF', 'PG')], 'inters': [('bonds', ['PF', 'PG'], ['1', '0.5', '10'])],
     'w': [('F1', 'PF', 1), ('G1', 'PG', 1)]},
    {'name': 'A2-alt', 'from': [('A2', 1, 'RA')], 'fedges': [], 'to': [('ALT', 1)], 'tedges': [], 'inters': [],
     'w': [('A2', 'ALT', 1)], 'optional': True},           # overlaps the RA mapping on atom A2
]


def make_molecule(rng):
    n = rng.randint(1, 5)
    seq = []
    while len(seq) < n:
        t = rng.choice(['RA', 'RB', 'RC', 'RD', 'RE', 'RF', 'RZ', 'RA', 'RB'])
        seq.append(t)
        if t == 'RF' and rng.random() < 0.8:
            seq.append('RG')
    nodes, edges = [], []
    firsts, lasts = [], []
    resid = rng.choice([1, 3, 20])
    for t in seq:
        atoms, bonds = RES[t]
        idx0 = len(nodes)
        for name, el in atoms:
            nodes.append({'resid': resid, 'resname': t, 'atomname': name, 'element': el})
        for a, b in bonds:
            edges.append((idx0 + a, idx0 + b))
        if rng.random() < 0.5:           # a hydrogen no mapping describes
            nodes.append({'resid': resid, 'resname': t, 'atomname': 'HX', 'element': 'H'})
            edges.append((idx0, len(nodes) - 1))
        firsts.append(idx0)
        lasts.append(idx0 + len(atoms) - 1)
        resid += rng.choice([1, 1, 2])
    for i in range(1, len(seq)):
        j = i - 1 if rng.random() < 0.8 else rng.randrange(i)        # linear or branched
        edges.append((lasts[j], firsts[i]))
    if len(seq) >= 3 and rng.random() < 0.25:                       # cycle / cross-link
        edges.append((firsts[0], lasts[-1]))
    # node numbering
    mode = rng.choice(['identity', 'reversed', 'sparse'])
    n_at = len(nodes)
    if mode == 'identity':
        ids = list(range(n_at))
    elif mode == 'reversed':
        ids = list(range(n_at - 1, -1, -1))
    else:
        ids = rng.sample(range(0, 3 * n_at + 5), n_at)
    M = {'nodes': [dict(nd, id=ids[i]) for i, nd in enumerate(nodes)],
         'edges': sorted({(min(ids[a], ids[b]), max(ids[a], ids[b])) for a, b in edges if a != b})}
    M['edges'] = [list(e) for e in M['edges']]
    order = list(range(n_at))
    if rng.random() < 0.5:
        rng.shuffle(order)               # insertion order of the nodes differs from their keys
    M['insertion'] = [ids[i] for i in order]
    return M, mode


def abstract_maps(use_alt):
    out = []
    for m in MAPS:
        if m.get('optional') and not use_alt:
            continue
        out.append({'from': {'nodes': [{'key': k, 'resid': r, 'resname': rn, 'atomname': k} for k, r, rn in m['from']],
                             'edges': [list(e) for e in m['fedges']]},
                    'to': {'nodes': [{'key': k, 'resid': r, 'atomname': k} for k, r in m['to']], 'edges': [list(e) for e in m['tedges']],
                           'inters': [{'type': t, 'atoms': a, 'params': p} for t, a, p in m['inters']]},
                    'w': [list(w) for w in m['w']], 'name': m['name']})
    return out


def build_real(M, amaps):
    import numpy as np
    from vermouth.molecule import Molecule, Block, Interaction
    from vermouth.forcefield import ForceField
    from vermouth.map_parser import Mapping
    ff_aa, ff_cg = ForceField(name='verif_aa'), ForceField(name='verif_cg')
    mol = Molecule(force_field=ff_aa)
    byid = {n['id']: n for n in M['nodes']}
    for nid in M['insertion']:
        n = byid[nid]
        mol.add_node(nid, resid=n['resid'], resname=n['resname'], atomname=n['atomname'], element=n['element'], chain='A',
                     position=np.array([0.1 * (nid % 7), 0.05 * nid, 0.0]))
    mol.add_edges_from(M['edges'])
    mappings = {}
    index = {}
    for i, am in enumerate(amaps, 1):
        bf = Block(force_field=ff_aa)
        for nd in am['from']['nodes']:
            bf.add_node(nd['key'], atomname=nd['atomname'], resname=nd['resname'], resid=nd['resid'])
        bf.add_edges_from(am['from']['edges'])
        bt = Block(force_field=ff_cg, nrexcl=1)
        bt.name = am['name']
        for cg, nd in enumerate(am['to']['nodes'], 1):
            bt.add_node(nd['key'], atomname=nd['atomname'], resname='X' + am['name'][:2], resid=nd['resid'], atype='P1', charge_group=cg)
        bt.add_edges_from(am['to']['edges'])
        for it in am['to']['inters']:
            bt.interactions.setdefault(it['type'], []).append(Interaction(atoms=tuple(it['atoms']), parameters=list(it['params']), meta={}))
        weights = {}
        for fk, tk, w in am['w']:
            weights.setdefault(fk, {})[tk] = w
        mp_obj = Mapping(bf, bt, weights, {}, ff_from=ff_aa, ff_to=ff_cg, extra=(), normalize_weights=False, type='block',
                         names=(am['name'],))
        mappings[am['name']] = mp_obj
        index[id(mp_obj.block_to)] = i
    return mol, {'verif_aa': {'verif_cg': mappings}}, ff_cg, index


class _Capture(logging.Handler):
    def __init__(self):
        super().__init__(level=logging.DEBUG)
        self.records = []

    def emit(self, record):
        self.records.append(record)


def run_real(M, amaps):
    import vermouth.processors.do_mapping as dm
    from vermouth.utils import format_atom_string
    mol, mappings, ff_cg, index = build_real(M, amaps)
    applied = []
    orig = dm.apply_block_mapping

    def spy(match, molecule, graph_out, mol_to_out, out_to_mol):
        applied.append({'m': index.get(id(match[1]), 0), 'atoms': sorted(match[0])})
        return orig(match, molecule, graph_out, mol_to_out, out_to_mol)
    dm.apply_block_mapping = spy
    logger = logging.getLogger('vermouth')
    cap = _Capture()
    logger.addHandler(cap)
    old = logger.level
    logger.setLevel(logging.DEBUG)
    try:
        out = dm.DoMapping(mappings, ff_cg, attribute_keep=('chain',), attribute_must=('resname',),
                           attribute_stash=('resid',)).run_molecule(mol)
    finally:
        dm.apply_block_mapping = orig
        logger.removeHandler(cap)
        logger.setLevel(old)
    warn_unmapped, warn_overlap, named = False, False, []
    for rec in cap.records:
        if rec.levelno < logging.WARNING:
            continue
        typ = getattr(rec, 'type', 'general')
        text = str(getattr(rec.msg, 'fmt', rec.msg))
        if typ == 'unmapped-atom':
            warn_unmapped = True
            listed = set(rec.msg.args[0]) if getattr(rec.msg, 'args', None) else set()
            named = [n['id'] for n in M['nodes'] if format_atom_string(mol.nodes[n['id']]) in listed]
        elif typ == 'inconsistent-data' and text.startswith('These atoms are covered by multiple blocks'):
            warn_overlap = True
    parts = []
    problems = []
    for key, d in out.nodes(data=True):
        w = d.get('mapping_weights', {})
        g = d.get('graph')
        if g is None or set(g.nodes) != set(w):
            problems.append('particle %s: graph attribute and mapping_weights disagree' % key)
        cons = [[a, int(x) if float(x) == int(x) else -999] for a, x in w.items()]
        parts.append({'key': key, 'resid': d.get('resid'), 'oldresids': [d.get('_old_resid')] if d.get('_old_resid') is not None else [],
                      'atomname': d.get('atomname'), 'cons': sorted(cons)})
    edges = sorted([min(a, b), max(a, b)] for a, b in out.edges)
    inters = []
    for t, lst in out.interactions.items():
        for it in lst:
            inters.append({'type': t, 'atoms': list(it.atoms), 'params': [str(p) for p in it.parameters]})
    return out, {'applied': applied, 'parts': parts, 'edges': edges, 'inters': inters, 'warn_unmapped': warn_unmapped,
                 'warn_overlap': warn_overlap, 'unmapped_named': named, 'problems': problems}


def avg_events_from(out, rng, center=None):
    """C09 events from the particles of a real mapping run: integer picometre coordinates, exact comparison."""
    import numpy as np
    from vermouth.processors.average_beads import DoAverageBead
    events = []
    # integer picometre coordinates on the constituent atoms (shared subgraph node dicts are views of the molecule)
    seen = {}
    for key, d in out.nodes(data=True):
        for a, nd in d['graph'].nodes(data=True):
            if a not in seen:
                seen[a] = [rng.randint(-20, 20) * 50 for _ in range(3)]
                if rng.random() < 0.15:
                    seen[a] = None
            if seen[a] is None:
                nd.pop('position', None)
            else:
                nd['position'] = np.array(seen[a], dtype=float) / 1000.0
            if center:
                nd['mass'] = {'C': 12, 'N': 14, 'O': 16, 'S': 32, 'P': 31, 'H': 1}.get(nd.get('element'), 0)
    if center:
        out.force_field.variables['center_weight'] = 'mass'
    else:
        out.force_field.variables.pop('center_weight', None)
    DoAverageBead(ignore_missing_graphs=True).run_molecule(out)
    for key, d in out.nodes(data=True):
        cons = []
        for a, nd in d['graph'].nodes(data=True):
            w = d['mapping_weights'].get(a, 1)
            pos = seen[a]
            cons.append({'w': int(w), 'cw': int(nd.get('mass', 1)) if center else 1, 'has': pos is not None,
                         'x': pos[0] if pos else 0, 'y': pos[1] if pos else 0, 'z': pos[2] if pos else 0})
        den = sum(c['w'] * c['cw'] for c in cons if c['has'])
        p = d.get('position')
        isnan = p is None or bool(np.any(np.isnan(p)))
        e = {'kind': 'avg', 'cons': cons, 'isnan': isnan, 'px': 0, 'py': 0, 'pz': 0, 'inexact': False}
        if not isnan:
            vals = [float(v) * 1000.0 * den for v in p]
            e['px'], e['py'], e['pz'] = [int(round(v)) for v in vals]
            e['inexact'] = any(abs(v - round(v)) > 1e-6 * max(1.0, abs(v)) for v in vals)
        events.append(e)
    return events


def _run_chunk(args):
    n, seed, want_avg = args
    rng = random.Random(seed)
    out_events = []
    for _ in range(n):
        M, mode = make_molecule(rng)
        amaps = abstract_maps(use_alt=rng.random() < 0.3)
        try:
            out, rec = run_real(M, amaps)
            err = '; '.join(rec.pop('problems'))
        except Exception as exc:      # noqa
            out, rec, err = None, {'applied': [], 'parts': [], 'edges': [], 'inters': [], 'warn_unmapped': False,
                                   'warn_overlap': False, 'unmapped_named': []}, 'DoMapping raised %r' % (exc,)
        e = {'kind': 'map', 'M': {'nodes': M['nodes'], 'edges': M['edges']}, 'mps': [{k: m[k] for k in ('from', 'to', 'w')} for m in amaps],
             'numbering': mode, 'err': err}
        e.update(rec)
        out_events.append(e)
        if want_avg and out is not None:
            try:
                out_events += avg_events_from(out, rng, center=rng.random() < 0.4)
            except Exception as exc:      # noqa
                out_events.append({'kind': 'avg', 'cons': [], 'isnan': True, 'px': 0, 'py': 0, 'pz': 0, 'inexact': False,
                                   'err': 'DoAverageBead raised %r' % (exc,)})
    return out_events


def _judge(shard):
    work = tlc.scratch('c01_')
    slim = [{k: e[k] for k in e if k not in ('numbering', 'err', 'inexact')} for e in shard]
    tf = tlc.write_json(work, 'trace.json', slim)
    res = tlc.run('Trace_Mapping', 'SPECIFICATION Spec\n', dump=True, env={'TRACE_FILE': tf}, workdir=work, workers=1, timeout=3400)
    return res.distinct, res.generated, {st['tid']: st['verdict'] for st in res.states() if st['verdict'] != 'pending'}


def judge_events(events, ev, vd, kinds=('map', 'avg')):
    events = [e for e in events if e['kind'] in kinds]
    shards = common.chunks(events, tlc.NCPU)
    with mp.Pool(len(shards)) as pool:
        outs = pool.map(_judge, shards)
    stats = {}
    for shard, (d, g, verdicts) in zip(shards, outs):
        ev.states += d
        ev.transitions += g
        for i, e in enumerate(shard, 1):
            ev.traces += 1
            ev.evaluations += 1
            v = verdicts.get(i, 'no-verdict')
            if e.get('err'):
                v = e['err']
            if e.get('inexact'):
                v = 'position is not the exact weighted mean (beyond 1e-6 relative)'
            if e['kind'] == 'map':
                stats[e['numbering']] = stats.get(e['numbering'], 0) + 1
                if len(e['applied']) >= 2:
                    ev.nontrivial_case([e['M'], len(e['mps'])])
            else:
                if sum(1 for c in e['cons'] if c['has']) >= 2:
                    ev.nontrivial_case(e['cons'])
            if v != 'ok':
                vd.violation('trace-rejected', e, '%s: %s' % (e['kind'], v))
    return stats, events


def run(tier, seed, ev, vd):
    ev.rule = ('random molecules of 1-5 residues over 8 residue types (linear / branched / cyclic, numbering gaps, identity / reversed '
               '/ sparse shuffled node keys, insertion order independent of keys, unmapped hydrogens) with 6-7 mappings. '
               'Non-trivial = at least two placements applied; distinct by (molecule, number of mappings).')
    ev.assumptions = ['mappings are built as Mapping objects with integer weights (the .map/.mapping grammar is C13)',
                      'modification mappings are not generated; molecules in which two placements share their lowest atom are '
                      'generated but not judged (order unspecified)', 'atom names are unique within a residue']
    n = 640 if tier == 'quick' else 16000
    with mp.Pool(tlc.NCPU) as pool:
        parts = pool.map(_run_chunk, [(n // tlc.NCPU, seed * 7907 + i, False) for i in range(tlc.NCPU)])
    events = [e for p in parts for e in p]
    stats, events = judge_events(events, ev, vd, kinds=('map',))
    ev.extra['runs_by_numbering'] = stats
    ev.extra['runs_with_overlap_warning'] = sum(1 for e in events if e['warn_overlap'])
    ev.extra['runs_with_unmapped_warning'] = sum(1 for e in events if e['warn_unmapped'])
    ev.tlc_runs.append({'run': 'TRACE Trace_Mapping (map)', 'events': len(events)})
    e0 = next(e for e in events if len(e['applied']) >= 3)
    ev.sample({'kind': 'recorded DoMapping run judged by TLC', 'molecule': e0['M'], 'applied': e0['applied'], 'particles': e0['parts'],
               'edges': e0['edges']})


def replay(sc):
    if sc['kind'] == 'map':
        M = dict(sc['M'])
        M['insertion'] = [n['id'] for n in M['nodes']]
        amaps = abstract_maps(use_alt=len(sc['mps']) == len(MAPS))
        out, rec = run_real(M, amaps)
        for k in ('applied', 'parts', 'edges', 'warn_unmapped', 'warn_overlap'):
            print(k, 'now     :', rec[k])
            print(k, 'recorded:', sc[k])
    else:
        print(sc)
    return 0


def selftest(seed):
    import copy
    events = [e for e in _run_chunk((30, seed, False)) if len(e['applied']) >= 2 and not e['err'] and e['edges']]
    good = events[0]
    b1 = copy.deepcopy(events[1])
    b1['edges'] = b1['edges'][1:]
    b2 = copy.deepcopy(events[2])
    b2['parts'][-1]['resid'] += 1
    ev = common.Evidence(PID, 'quick', seed)
    vd = common.Verdicts(PID, ev)
    judge_events([good, b1, b2], ev, vd)
    assert len(vd.violations) == 2, vd.violations
    print('selftest C01: tampered runs rejected:', [d.split(': ')[-1] for k, p, d in vd.violations])
    import os
    for k, p, d in vd.violations:
        os.path.exists(p) and os.remove(p)
    return 0
