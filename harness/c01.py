"""C01 - resolution transformation conserves atoms, residues and connectivity  (also produces the C09 events).

spec/Mapping.tla        Placements (induced embeddings matching residue/atom names and the same-residue relation on bonds),
                        order by lowest atom key, ApplyBlock (fresh keys, residue shift of the last particle, constituents and
                        weights, particles built from no atom), InterEdges, UnmappedHeavy, Overlapping; Mean (exact weighted mean).
                        Generic form (G*): attribute-wise node matching as the two matchers of do_mapping compare, modification
                        groups, GCover (which modification mappings are needed), placements of modification mappings, merged
                        order of blocks and modifications (block_sort_key / mod_sort_key), GApplyMod (re-used / new particles,
                        re-weighting, bonds, add-or-replace of interactions), bonds between placements, the four warnings
spec/Trace_Mapping.tla  TLC judges recorded runs of the real DoMapping (+ interposed apply_block_mapping / apply_mod_mapping):
                        JudgeMap (block universe), JudgeMapX (generic form: every clause evaluated), JudgeCover; DoAverageBead
spec/MappingCover.tla   TLC: GCover (shaped like cover()) = the first exact cover in option order, on every small input; the
                        table is replayed into the real cover()

Families
 block universe   two synthetic force fields: one-to-one, many-to-one, an atom shared between two particles, a zero-weight
                  atom, a particle built from no atom, a two-residue mapping, unmapped heavy atoms and hydrogens, overlapping
                  placements; linear / branched / cyclic residue sequences, identity / reversed / sparse shuffled node keys
 modifications    the same universe plus modification mappings: terminus-like ones that change a particle and re-weight it
                  (MT, MN - whose unlabelled from-node overlaps MT on a residue carrying both -, an optional two-name mapping
                  MN+MT preferred by the cover), one that adds a particle and replaces a block interaction (MP), one spanning two residues (MX), one that only creates
                  a particle and is therefore ordered by its lowest atom (MS), two without mapping (MU; MV = the atoms of MT under
                  another label, so that only the label tells where MT applies); molecules carry the
                  'modifications' / 'PTM_atom' attributes as CanonicalizeModifications leaves them (whole residue labelled)
 real             harness/c01_real.py: the martinize2 front end in-process on the tier-0 structures, shipped force fields and
                  mappings, projected generically, judged by the same operators"""
import logging
import multiprocessing as mp
import random
import shutil

from . import common, tlc

PID = 'C01'

# residue type -> (atoms [(name, element)], internal bonds)
RES = {
    'RA': ([('A1', 'C'), ('A2', 'N')], [(0, 1)]),
    'RB': ([('B1', 'C'), ('B2', 'C'), ('B3', 'O')], [(0, 1), (1, 2)]),
    'RC': ([('C1', 'C'), ('C2', 'C'), ('C3', 'S')], [(0, 1), (1, 2)]),
    'RD': ([('D1', 'C'), ('D2', 'O')], [(0, 1)]),
    'RE': ([('E1', 'P')], []),
    'RF': ([('F1', 'C')], []),
    'RG': ([('G1', 'N')], []),
    'RZ': ([('Z1', 'C')], []),            # no mapping: unmapped heavy atom
}
# abstract mappings
MAPS = [
    {'name': 'RA', 'from': [('A1', 1, 'RA'), ('A2', 1, 'RA')], 'fedges': [('A1', 'A2')],
     'to': [('P1', 1), ('P2', 1)], 'tedges': [('P1', 'P2')], 'inters': [('bonds', ['P1', 'P2'], ['1', '0.3', '500'])],
     'w': [('A1', 'P1', 1), ('A2', 'P2', 1)]},
    {'name': 'RB', 'from': [('B1', 1, 'RB'), ('B2', 1, 'RB'), ('B3', 1, 'RB')], 'fedges': [('B1', 'B2'), ('B2', 'B3')],
     'to': [('BB', 1), ('SC', 1)], 'tedges': [('BB', 'SC')], 'inters': [('bonds', ['BB', 'SC'], ['1', '0.4', '900'])],
     'w': [('B1', 'BB', 1), ('B2', 'BB', 1), ('B3', 'SC', 1)]},
    {'name': 'RC', 'from': [('C1', 1, 'RC'), ('C2', 1, 'RC'), ('C3', 1, 'RC')], 'fedges': [('C1', 'C2'), ('C2', 'C3')],
     'to': [('X', 1), ('Y', 1)], 'tedges': [('X', 'Y')], 'inters': [('constraints', ['X', 'Y'], ['1', '0.2'])],
     'w': [('C1', 'X', 2), ('C2', 'X', 1), ('C2', 'Y', 1), ('C3', 'Y', 1)]},
    {'name': 'RD', 'from': [('D1', 1, 'RD'), ('D2', 1, 'RD')], 'fedges': [('D1', 'D2')],
     'to': [('Q', 1)], 'tedges': [], 'inters': [], 'w': [('D1', 'Q', 1), ('D2', 'Q', 0)]},
    {'name': 'RE', 'from': [('E1', 1, 'RE')], 'fedges': [], 'to': [('PE', 1), ('DUM', 1)], 'tedges': [('PE', 'DUM')],
     'inters': [('bonds', ['PE', 'DUM'], ['1', '0.1', '99'])], 'w': [('E1', 'PE', 1)]},
    {'name': 'RF-RG', 'from': [('F1', 1, 'RF'), ('G1', 2, 'RG')], 'fedges': [('F1', 'G1')],
     'to': [('PF', 1), ('PG', 2)], 'tedges': [('PF', 'PG')], 'inters': [('bonds', ['PF', 'PG'], ['1', '0.5', '10'])],
     'w': [('F1', 'PF', 1), ('G1', 'PG', 1)]},
    {'name': 'A2-alt', 'from': [('A2', 1, 'RA')], 'fedges': [], 'to': [('ALT', 1)], 'tedges': [], 'inters': [],
     'w': [('A2', 'ALT', 1)], 'optional': True},           # overlaps the RA mapping on atom A2
]


def make_molecule(rng):
    n = rng.randint(1, 5)
    seq = []
    while len(seq) < n:
        t = rng.choice(['RA', 'RB', 'RC', 'RD', 'RE', 'RF', 'RZ', 'RA', 'RB'])
        seq.append(t)
        if t == 'RF' and rng.random() < 0.8:
            seq.append('RG')
    nodes, edges = [], []
    firsts, lasts = [], []
    resid = rng.choice([1, 3, 20])
    for t in seq:
        atoms, bonds = RES[t]
        idx0 = len(nodes)
        for name, el in atoms:
            nodes.append({'resid': resid, 'resname': t, 'atomname': name, 'element': el})
        for a, b in bonds:
            edges.append((idx0 + a, idx0 + b))
        if rng.random() < 0.5:           # a hydrogen no mapping describes
            nodes.append({'resid': resid, 'resname': t, 'atomname': 'HX', 'element': 'H'})
            edges.append((idx0, len(nodes) - 1))
        firsts.append(idx0)
        lasts.append(idx0 + len(atoms) - 1)
        resid += rng.choice([1, 1, 2])
    for i in range(1, len(seq)):
        j = i - 1 if rng.random() < 0.8 else rng.randrange(i)        # linear or branched
        edges.append((lasts[j], firsts[i]))
    if len(seq) >= 3 and rng.random() < 0.25:                       # cycle / cross-link
        edges.append((firsts[0], lasts[-1]))
    # node numbering
    mode = rng.choice(['identity', 'reversed', 'sparse'])
    n_at = len(nodes)
    if mode == 'identity':
        ids = list(range(n_at))
    elif mode == 'reversed':
        ids = list(range(n_at - 1, -1, -1))
    else:
        ids = rng.sample(range(0, 3 * n_at + 5), n_at)
    M = {'nodes': [dict(nd, id=ids[i]) for i, nd in enumerate(nodes)],
         'edges': sorted({(min(ids[a], ids[b]), max(ids[a], ids[b])) for a, b in edges if a != b})}
    M['edges'] = [list(e) for e in M['edges']]
    order = list(range(n_at))
    if rng.random() < 0.5:
        rng.shuffle(order)               # insertion order of the nodes differs from their keys
    M['insertion'] = [ids[i] for i in order]
    return M, mode


def abstract_maps(use_alt):
    out = []
    for m in MAPS:
        if m.get('optional') and not use_alt:
            continue
        out.append({'from': {'nodes': [{'key': k, 'resid': r, 'resname': rn, 'atomname': k} for k, r, rn in m['from']],
                             'edges': [list(e) for e in m['fedges']]},
                    'to': {'nodes': [{'key': k, 'resid': r, 'atomname': k} for k, r in m['to']], 'edges': [list(e) for e in m['tedges']],
                           'inters': [{'type': t, 'atoms': a, 'params': p} for t, a, p in m['inters']]},
                    'w': [list(w) for w in m['w']], 'name': m['name']})
    return out


def build_real(M, amaps):
    import numpy as np
    from vermouth.molecule import Molecule, Block, Interaction
    from vermouth.forcefield import ForceField
    from vermouth.map_parser import Mapping
    ff_aa, ff_cg = ForceField(name='verif_aa'), ForceField(name='verif_cg')
    mol = Molecule(force_field=ff_aa)
    byid = {n['id']: n for n in M['nodes']}
    for nid in M['insertion']:
        n = byid[nid]
        mol.add_node(nid, resid=n['resid'], resname=n['resname'], atomname=n['atomname'], element=n['element'], chain='A',
                     position=np.array([0.1 * (nid % 7), 0.05 * nid, 0.0]))
    mol.add_edges_from(M['edges'])
    mappings = {}
    index = {}
    for i, am in enumerate(amaps, 1):
        bf = Block(force_field=ff_aa)
        for nd in am['from']['nodes']:
            bf.add_node(nd['key'], atomname=nd['atomname'], resname=nd['resname'], resid=nd['resid'])
        bf.add_edges_from(am['from']['edges'])
        bt = Block(force_field=ff_cg, nrexcl=1)
        bt.name = am['name']
        for cg, nd in enumerate(am['to']['nodes'], 1):
            bt.add_node(nd['key'], atomname=nd['atomname'], resname='X' + am['name'][:2], resid=nd['resid'], atype='P1', charge_group=cg)
        bt.add_edges_from(am['to']['edges'])
        for it in am['to']['inters']:
            bt.interactions.setdefault(it['type'], []).append(Interaction(atoms=tuple(it['atoms']), parameters=list(it['params']), meta={}))
        weights = {}
        for fk, tk, w in am['w']:
            weights.setdefault(fk, {})[tk] = w
        mp_obj = Mapping(bf, bt, weights, {}, ff_from=ff_aa, ff_to=ff_cg, extra=(), normalize_weights=False, type='block',
                         names=(am['name'],))
        mappings[am['name']] = mp_obj
        index[id(mp_obj.block_to)] = i
    return mol, {'verif_aa': {'verif_cg': mappings}}, ff_cg, index


class _Capture(logging.Handler):
    def __init__(self):
        super().__init__(level=logging.DEBUG)
        self.records = []

    def emit(self, record):
        self.records.append(record)


def run_real(M, amaps):
    import vermouth.processors.do_mapping as dm
    from vermouth.utils import format_atom_string
    mol, mappings, ff_cg, index = build_real(M, amaps)
    applied = []
    orig = dm.apply_block_mapping

    def spy(match, molecule, graph_out, mol_to_out, out_to_mol):
        applied.append({'m': index.get(id(match[1]), 0), 'atoms': sorted(match[0])})
        return orig(match, molecule, graph_out, mol_to_out, out_to_mol)
    dm.apply_block_mapping = spy
    logger = logging.getLogger('vermouth')
    cap = _Capture()
    logger.addHandler(cap)
    old = logger.level
    logger.setLevel(logging.DEBUG)
    try:
        out = dm.DoMapping(mappings, ff_cg, attribute_keep=('chain',), attribute_must=('resname',),
                           attribute_stash=('resid',)).run_molecule(mol)
    finally:
        dm.apply_block_mapping = orig
        logger.removeHandler(cap)
        logger.setLevel(old)
    warn_unmapped, warn_overlap, named = False, False, []
    for rec in cap.records:
        if rec.levelno < logging.WARNING:
            continue
        typ = getattr(rec, 'type', 'general')
        text = str(getattr(rec.msg, 'fmt', rec.msg))
        if typ == 'unmapped-atom':
            warn_unmapped = True
            listed = set(rec.msg.args[0]) if getattr(rec.msg, 'args', None) else set()
            named = [n['id'] for n in M['nodes'] if format_atom_string(mol.nodes[n['id']]) in listed]
        elif typ == 'inconsistent-data' and text.startswith('These atoms are covered by multiple blocks'):
            warn_overlap = True
    parts = []
    problems = []
    for key, d in out.nodes(data=True):
        w = d.get('mapping_weights', {})
        g = d.get('graph')
        if g is None or set(g.nodes) != set(w):
            problems.append('particle %s: graph attribute and mapping_weights disagree' % key)
        cons = [[a, int(x) if float(x) == int(x) else -999] for a, x in w.items()]
        parts.append({'key': key, 'resid': d.get('resid'), 'oldresids': [d.get('_old_resid')] if d.get('_old_resid') is not None else [],
                      'atomname': d.get('atomname'), 'cons': sorted(cons)})
    edges = sorted([min(a, b), max(a, b)] for a, b in out.edges)
    inters = []
    for t, lst in out.interactions.items():
        for it in lst:
            inters.append({'type': t, 'atoms': list(it.atoms), 'params': [str(p) for p in it.parameters]})
    return out, {'applied': applied, 'parts': parts, 'edges': edges, 'inters': inters, 'warn_unmapped': warn_unmapped,
                 'warn_overlap': warn_overlap, 'unmapped_named': named, 'problems': problems}


def avg_events_from(out, rng, center=None):
    """C09 events from the particles of a real mapping run: integer picometre coordinates, exact comparison."""
    import numpy as np
    from vermouth.processors.average_beads import DoAverageBead
    events = []
    # integer picometre coordinates on the constituent atoms (shared subgraph node dicts are views of the molecule)
    seen = {}
    for key, d in out.nodes(data=True):
        for a, nd in d['graph'].nodes(data=True):
            if a not in seen:
                seen[a] = [rng.randint(-20, 20) * 50 for _ in range(3)]
                if rng.random() < 0.15:
                    seen[a] = None
            if seen[a] is None:
                nd.pop('position', None)
            else:
                nd['position'] = np.array(seen[a], dtype=float) / 1000.0
            if center:
                nd['mass'] = {'C': 12, 'N': 14, 'O': 16, 'S': 32, 'P': 31, 'H': 1}.get(nd.get('element'), 0)
    if center:
        out.force_field.variables['center_weight'] = 'mass'
    else:
        out.force_field.variables.pop('center_weight', None)
    DoAverageBead(ignore_missing_graphs=True).run_molecule(out)
    for key, d in out.nodes(data=True):
        cons = []
        for a, nd in d['graph'].nodes(data=True):
            w = d['mapping_weights'].get(a, 1)
            pos = seen[a]
            cons.append({'w': int(w), 'cw': int(nd.get('mass', 1)) if center else 1, 'has': pos is not None,
                         'x': pos[0] if pos else 0, 'y': pos[1] if pos else 0, 'z': pos[2] if pos else 0})
        den = sum(c['w'] * c['cw'] for c in cons if c['has'])
        p = d.get('position')
        isnan = p is None or bool(np.any(np.isnan(p)))
        e = {'kind': 'avg', 'cons': cons, 'isnan': isnan, 'px': 0, 'py': 0, 'pz': 0, 'inexact': False}
        if not isnan:
            vals = [float(v) * 1000.0 * den for v in p]
            e['px'], e['py'], e['pz'] = [int(round(v)) for v in vals]
            e['inexact'] = any(abs(v - round(v)) > 1e-6 * max(1.0, abs(v)) for v in vals)
        events.append(e)
    return events


def _run_chunk(args):
    n, seed, want_avg = args
    rng = random.Random(seed)
    out_events = []
    for _ in range(n):
        M, mode = make_molecule(rng)
        amaps = abstract_maps(use_alt=rng.random() < 0.3)
        try:
            out, rec = run_real(M, amaps)
            err = '; '.join(rec.pop('problems'))
        except Exception as exc:      # noqa
            out, rec, err = None, {'applied': [], 'parts': [], 'edges': [], 'inters': [], 'warn_unmapped': False,
                                   'warn_overlap': False, 'unmapped_named': []}, 'DoMapping raised %r' % (exc,)
        e = {'kind': 'map', 'M': {'nodes': M['nodes'], 'edges': M['edges']}, 'mps': [{k: m[k] for k in ('from', 'to', 'w')} for m in amaps],
             'numbering': mode, 'err': err}
        e.update(rec)
        out_events.append(e)
        if want_avg and out is not None:
            try:
                out_events += avg_events_from(out, rng, center=rng.random() < 0.4)
            except Exception as exc:      # noqa
                out_events.append({'kind': 'avg', 'cons': [], 'isnan': True, 'px': 0, 'py': 0, 'pz': 0, 'inexact': False,
                                   'err': 'DoAverageBead raised %r' % (exc,)})
    return out_events


def _judge(shard):
    work = tlc.scratch('c01_')
    slim = [{k: e[k] for k in e if k not in ('numbering', 'err', 'inexact')} for e in shard]
    tf = tlc.write_json(work, 'trace.json', slim)
    try:
        res = tlc.run('Trace_Mapping', 'SPECIFICATION Spec\n', dump=True, env={'TRACE_FILE': tf}, workdir=work, workers=1, timeout=3400)
        return res.distinct, res.generated, {st['tid']: st['verdict'] for st in res.states() if st['verdict'] != 'pending'}
    finally:
        shutil.rmtree(work, ignore_errors=True)       # pool workers do not run the atexit clean-up of tlc.scratch


def judge_events(events, ev, vd, kinds=('map', 'avg'), shards=None, outs=None):
    events = [e for e in events if e['kind'] in kinds]
    if outs is None:
        shards = common.chunks(events, tlc.NCPU)
        with mp.Pool(len(shards)) as pool:
            outs = pool.map(_judge, shards)
    stats = {}
    for shard, (d, g, verdicts) in zip(shards, outs):
        ev.states += d
        ev.transitions += g
        for i, e in enumerate(shard, 1):
            ev.traces += 1
            ev.evaluations += 1
            v = verdicts.get(i, 'no-verdict')
            if e.get('err'):
                v = e['err']
            if e.get('inexact'):
                v = 'position is not the exact weighted mean (beyond 1e-6 relative)'
            if e['kind'] == 'map':
                stats[e['numbering']] = stats.get(e['numbering'], 0) + 1
                if len(e['applied']) >= 2:
                    ev.nontrivial_case([e['M'], len(e['mps'])])
            else:
                if sum(1 for c in e['cons'] if c['has']) >= 2:
                    ev.nontrivial_case(e['cons'])
            if v != 'ok':
                vd.violation('trace-rejected', e, '%s: %s' % (e['kind'], v))
    return stats, events


# ---------------------------------------------------------------------------------------------------------------------
# modification universe (generic form; judged by Trace_Mapping!JudgeMapX)

# modification -> (residue type it sits on, PTM atoms [(name, element, bonded to)])
XMODS = {
    'MT': ('RA', [('XT', 'O', 'A2')]),
    'MN': ('RA', [('XN', 'H', 'A1')]),
    'MP': ('RB', [('XP', 'P', 'B3'), ('XO', 'O', 'XP')]),
    'MU': ('RD', [('XU', 'N', 'D1')]),                     # no mapping known
    'MV': ('RA', [('XT', 'O', 'A2')]),                     # no mapping known; same atoms as MT under another label
    'MS': ('RE', [('XS', 'C', 'E1')]),
}
# modification mappings: names, from-nodes [(atomname, labelled with the modification?, PTM atom?, element or None)],
# from-edges, to-nodes [(atomname, PTM (new particle)?, atype, replacement atype)], to-edges, interactions, weights
XMODMAPS = [
    {'names': ('MT',), 'from': [('A2', True, False, None), ('XT', True, True, 'O')], 'fedges': [('A2', 'XT')],
     'to': [('P2', False, None, 'Qt')], 'tedges': [], 'inters': [], 'w': [('A2', 'P2', 1), ('XT', 'P2', 1)]},
    {'names': ('MN',), 'from': [('A1', True, False, None), ('XN', True, True, 'H'), ('A2', False, False, None)],
     'fedges': [('A1', 'XN'), ('A1', 'A2')],
     'to': [('P1', False, None, 'Qn')], 'tedges': [], 'inters': [], 'w': [('A1', 'P1', 2), ('XN', 'P1', 0), ('A2', 'P1', 0)]},
    {'names': ('MN', 'MT'), 'optional': True,
     'from': [('A1', True, False, None), ('XN', True, True, None), ('A2', True, False, None), ('XT', True, True, None)],
     'fedges': [('A1', 'XN'), ('A1', 'A2'), ('A2', 'XT')],
     'to': [('P1', False, None, 'Qz'), ('P2', False, None, 'Qz')], 'tedges': [('P1', 'P2')],
     'inters': [('bonds', ['P1', 'P2'], ['1', '0.31', '501'])],
     'w': [('A1', 'P1', 1), ('XN', 'P1', 1), ('A2', 'P2', 1), ('XT', 'P2', 1)]},
    {'names': ('MP',), 'from': [('B2', False, False, None), ('B3', True, False, None), ('XP', True, True, 'P'), ('XO', True, True, 'O')],
     'fedges': [('B2', 'B3'), ('B3', 'XP'), ('XP', 'XO')],
     'to': [('BB', False, None, None), ('SC', False, None, 'SNx'), ('PO', True, 'Qa', None)], 'tedges': [('SC', 'PO'), ('BB', 'PO')],
     'inters': [('bonds', ['BB', 'SC'], ['1', '0.41', '901']), ('bonds', ['SC', 'PO'], ['1', '0.47', '1250'])],
     'w': [('B2', 'BB', 3), ('B3', 'SC', 1), ('XP', 'PO', 1), ('XO', 'PO', 1)]},
    {'names': ('MX',), 'from': [('C3', True, False, None), ('XL', True, True, 'S'), ('D2', True, False, None)],
     'fedges': [('C3', 'XL'), ('XL', 'D2')],
     'to': [('Y', False, None, None), ('L', True, 'Lk', None), ('Q', False, None, 'Qx')], 'tedges': [('Y', 'L'), ('L', 'Q')],
     'inters': [('bonds', ['Y', 'L'], ['1', '0.2', '7']), ('bonds', ['L', 'Q'], ['1', '0.2', '8'])],
     'w': [('C3', 'Y', 1), ('XL', 'L', 1), ('D2', 'Q', 1)]},
    {'names': ('MS',), 'from': [('XS', True, True, 'C')], 'fedges': [],
     'to': [('PS', True, 'Cs', None)], 'tedges': [], 'inters': [], 'w': [('XS', 'PS', 1)]},
]


def make_molecule_x(rng):
    """Abstract description of a molecule with modifications: atoms [{resid, resname, atomname, element, mods (None = no
    attribute), ptm}], bonds, node keys, insertion order."""
    n = rng.randint(2, 6)
    seq = []
    # one run in eight: several residues whose modification only creates a particle (several placements before the first block)
    rich = rng.random() < 0.125
    types = ['RE', 'RE', 'RE', 'RA', 'RB', 'RD'] if rich else ['RA', 'RA', 'RB', 'RB', 'RC', 'RD', 'RD', 'RE', 'RF', 'RZ']
    while len(seq) < n:
        t = rng.choice(types)
        seq.append(t)
        if t == 'RF' and rng.random() < 0.8:
            seq.append('RG')
        if t == 'RC' and rng.random() < 0.6:
            seq.append('RD')
    resmods = []
    for t in seq:
        m = []
        if t == 'RA':
            m = rng.choice([[], ['MT'], ['MN'], ['MN', 'MT'], ['MT', 'MN'], ['MT'], ['MV']])
        elif t == 'RB' and rng.random() < 0.55:
            m = ['MP']
        elif t == 'RD' and rng.random() < 0.2:
            m = ['MU']
        elif t == 'RE' and rng.random() < (0.9 if rich else 0.6):
            m = ['MS']
        resmods.append(list(m))
    cross = None
    rcs = [i for i, t in enumerate(seq) if t == 'RC']
    rds = [i for i, t in enumerate(seq) if t == 'RD']
    if rcs and rds and rng.random() < 0.6:
        cross = (rng.choice(rcs), rng.choice(rds))
        resmods[cross[0]].append('MX')
        resmods[cross[1]].append('MX')
    nodes, edges, late = [], [], []
    firsts, lasts, byname = [], [], []
    resid = rng.choice([1, 3, 20])
    for i, t in enumerate(seq):
        atoms, bonds = RES[t]
        mods = list(resmods[i]) if resmods[i] else ([] if rng.random() < 0.15 else None)
        idx0 = len(nodes)
        names = {}
        for name, el in atoms:
            names[name] = len(nodes)
            nodes.append({'resid': resid, 'resname': t, 'atomname': name, 'element': el, 'mods': mods, 'ptm': False})
        for a, b in bonds:
            edges.append((idx0 + a, idx0 + b))
        if rng.random() < 0.4:
            nodes.append({'resid': resid, 'resname': t, 'atomname': 'HX', 'element': 'H', 'mods': mods, 'ptm': False})
            edges.append((idx0, len(nodes) - 1))
        ptm = []
        for m in resmods[i]:
            if m in XMODS:
                ptm += [(nm, el, to) for nm, el, to in XMODS[m][1]]
        if cross and cross[0] == i:
            ptm.append(('XL', 'S', 'C3'))
        at_end = rng.random() < (0.8 if rich else 0.4)          # RepairGraph appends the atoms it adds at the end of the molecule
        for nm, el, to in ptm:
            nd = {'resid': resid, 'resname': t, 'atomname': nm, 'element': el, 'mods': mods, 'ptm': True}
            if at_end:
                late.append((nd, i, to, nm))
            else:
                names[nm] = len(nodes)
                nodes.append(nd)
                edges.append((names[to], names[nm]))
        byname.append(names)
        firsts.append(idx0)
        lasts.append(idx0 + len(atoms) - 1)
        resid += rng.choice([1, 1, 2])
    for nd, i, to, nm in late:
        byname[i][nm] = len(nodes)
        nodes.append(nd)
        edges.append((byname[i][to], byname[i][nm]))
    if cross:
        edges.append((byname[cross[0]]['XL'], byname[cross[1]]['D2']))
    for i in range(1, len(seq)):
        j = i - 1 if rng.random() < 0.8 else rng.randrange(i)
        edges.append((lasts[j], firsts[i]))
    if len(seq) >= 3 and rng.random() < 0.2:
        edges.append((firsts[0], lasts[-1]))
    mode = rng.choice(['identity', 'reversed', 'sparse'] + (['reversed', 'reversed'] if rich else []))
    n_at = len(nodes)
    if mode == 'identity':
        ids = list(range(n_at))
    elif mode == 'reversed':
        ids = list(range(n_at - 1, -1, -1))
    else:
        ids = rng.sample(range(0, 3 * n_at + 5), n_at)
    order = list(range(n_at))
    if rng.random() < 0.5:
        rng.shuffle(order)
    return {'atoms': [dict(nd, id=ids[i]) for i, nd in enumerate(nodes)],
            'bonds': sorted({(min(ids[a], ids[b]), max(ids[a], ids[b])) for a, b in edges if a != b}),
            'insertion': [ids[i] for i in order], 'numbering': mode,
            'use_alt': rng.random() < 0.15, 'use_combined': rng.random() < 0.5}


def build_real_x(desc):
    """Real Molecule, Modification and Mapping objects of the modification universe."""
    import numpy as np
    from vermouth.molecule import Molecule, Block, Interaction, Modification
    from vermouth.forcefield import ForceField
    from vermouth.map_parser import Mapping
    ff_aa, ff_cg = ForceField(name='verif_aa'), ForceField(name='verif_cg')
    aamods = {}
    for name in list(XMODS) + ['MX']:
        mod = Modification(force_field=ff_aa, name=name)
        aamods[name] = mod
    mol = Molecule(force_field=ff_aa)
    byid = {a['id']: a for a in desc['atoms']}
    for nid in desc['insertion']:
        a = byid[nid]
        attrs = dict(resid=a['resid'], resname=a['resname'], atomname=a['atomname'], element=a['element'], chain='A',
                     position=np.array([0.1 * (nid % 7), 0.05 * nid, 0.0]))
        if a['mods'] is not None:
            attrs['modifications'] = [aamods[m] for m in a['mods']]
        if a['ptm']:
            attrs['PTM_atom'] = True
        mol.add_node(nid, **attrs)
    mol.add_edges_from(desc['bonds'])
    mappings = {}
    for am in MAPS:
        if am.get('optional') and not desc['use_alt']:
            continue
        bf = Block(force_field=ff_aa)
        for k, r, rn in am['from']:
            bf.add_node(k, atomname=k, resname=rn, resid=r)
        bf.add_edges_from(am['fedges'])
        bt = Block(force_field=ff_cg, nrexcl=1)
        bt.name = am['name']
        for cg, (k, r) in enumerate(am['to'], 1):
            bt.add_node(k, atomname=k, resname='X' + am['name'][:2], resid=r, atype='T' + k, charge_group=cg)
        bt.add_edges_from(am['tedges'])
        for t, atoms, params in am['inters']:
            bt.interactions.setdefault(t, []).append(Interaction(atoms=tuple(atoms), parameters=list(params), meta={}))
        weights = {}
        for fk, tk, w in am['w']:
            weights.setdefault(fk, {})[tk] = w
        mappings[am['name']] = Mapping(bf, bt, weights, {}, ff_from=ff_aa, ff_to=ff_cg, extra=(), normalize_weights=False,
                                       type='block', names=(am['name'],))
    for xm in XMODMAPS:
        if xm.get('optional') and not desc['use_combined']:
            continue
        patt = Modification(force_field=ff_aa, name='+'.join(xm['names']))
        for nm, labelled, ptm, el in xm['from']:
            attrs = {'atomname': nm, 'resid': 1}
            if labelled:
                owner = [m for m in xm['names'] if m == 'MX' or any(nm == p[0] for p in XMODS[m][1])] or list(xm['names'])
                if not ptm:
                    owner = [m for m in xm['names'] if m == 'MX' or XMODS[m][1][0][2] == nm] or list(xm['names'])
                attrs['modifications'] = [aamods[m] for m in owner[:1]]
                attrs['PTM_atom'] = ptm
            if el:
                attrs['element'] = el
            patt.add_node(nm, **attrs)
        patt.add_edges_from(xm['fedges'])
        target = Modification(force_field=ff_cg, name='+'.join(xm['names']))
        for cg, (nm, ptm, atype, ratype) in enumerate(xm['to'], 1):
            attrs = {'atomname': nm, 'PTM_atom': ptm}
            if ptm:
                attrs.update(atype=atype, resid=1, charge_group=1)
            if ratype:
                attrs['replace'] = {'atype': ratype}
            target.add_node(nm, **attrs)
        target.add_edges_from(xm['tedges'])
        for t, atoms, params in xm['inters']:
            target.add_interaction(t, list(atoms), list(params))
        weights = {}
        for fk, tk, w in xm['w']:
            weights.setdefault(fk, {})[tk] = w
        mappings[tuple(xm['names'])] = Mapping(patt, target, weights, {}, ff_from=ff_aa, ff_to=ff_cg, extra=(),
                                               normalize_weights=False, type='modification', names=tuple(xm['names']))
    return mol, {'verif_aa': {'verif_cg': mappings}}, ff_cg


def x_event(desc):
    from . import c01_real
    mol, mappings, ff_cg = build_real_x(desc)
    out, e = c01_real.make_event(mol, mappings, ff_cg, 'modifications', desc['numbering'], attribute_keep=('chain',))
    e['numbering'] = desc['numbering']
    return e


def _run_chunk_x(args):
    n, seed = args
    rng = random.Random(seed)
    events = []
    for i in range(n):
        desc = make_molecule_x(rng)
        e = x_event(desc)
        e['scenario'] = {'xseed': seed, 'xindex': i}
        events.append(e)
    return events


def cover_events(rng, n):
    """Direct calls of the real cover() with the option list as modification_matches builds it."""
    import vermouth.processors.do_mapping as dm
    events = []
    for _ in range(n):
        universe = 'abcd'[:rng.randint(2, 4)]
        known = {}
        for _k in range(rng.randint(0, 5)):
            names = tuple(rng.sample(universe, rng.randint(1, min(3, len(universe)))))
            known.setdefault(names, len(known) + 1)
        group = set(rng.sample(universe, rng.randint(1, len(universe))))
        res = dm.cover(list(group), sorted(known, key=len, reverse=True))
        events.append({'kind': 'cover', 'mps': [{'type': 'modification', 'names': list(k)} for k in known],
                       'names': sorted(group), 'found': res is not None, 'sel': [known[k] for k in (res or [])], 'family': 'cover'})
    return events


def _judge_x(shard):
    from . import c01_real
    work = tlc.scratch('c01x_')
    tf = tlc.write_json(work, 'trace.json', [c01_real.slim(e) for e in shard])
    try:
        res = tlc.run('Trace_Mapping', 'SPECIFICATION Spec\n', dump=True, env={'TRACE_FILE': tf}, workdir=work, workers=1, timeout=3400)
        return res.distinct, res.generated, {st['tid']: st['verdict'] for st in res.states() if st['verdict'] != 'pending'}, res.wall
    finally:
        shutil.rmtree(work, ignore_errors=True)       # pool workers do not run the atexit clean-up of tlc.scratch


def _adds_particle(scenario):
    """Some applied modification placement creates a particle (its mapping has a to-node flagged as new)."""
    for a in scenario.get('applied', []):
        if a.get('kind') == 'mod' and 0 < a.get('m', 0) <= len(scenario.get('mps', [])):
            if any(t.get('ptm') for t in scenario['mps'][a['m'] - 1]['to']['nodes']):
                return True
    return False


def _judge_any(task):
    if task[0] == 'cover-model':
        return _cover_model_task(task[1])
    return _judge(task[1]) if task[0] == 'map' else _judge_x(task[1])


def judge_x(events, ev, vd, stats, shards=None, outs=None):
    """Shard, let TLC judge, turn verdicts into violations (one per event, listing every failed clause)."""
    if not events:
        return
    if outs is None:
        shards = common.chunks(events, tlc.NCPU)
        with mp.Pool(min(len(shards), tlc.NCPU)) as pool:
            outs = pool.map(_judge_x, shards, chunksize=1)
    for shard, (d, g, verdicts, wall) in zip(shards, outs):
        ev.states += d
        ev.transitions += g
        stats['tlc_wall_max'] = max(stats.get('tlc_wall_max', 0.0), round(wall, 1))
        for i, e in enumerate(shard, 1):
            ev.traces += 1
            ev.evaluations += 1
            v = verdicts.get(i, 'no-verdict')
            fam = e.get('family', e['kind'])
            if v.startswith('unjudged:'):
                stats.setdefault('unjudged', {}).setdefault(v[9:], 0)
                stats['unjudged'][v[9:]] += 1
                if e.get('err') and not e.get('raised'):
                    vd.violation('trace-rejected', _scenario_of(e, [e['err']]), '%s: %s' % (fam, e['err']))
                continue
            stats.setdefault('judged', {}).setdefault(fam, 0)
            stats['judged'][fam] += 1
            if e['kind'] == 'mapx':
                kinds = [a['kind'] for a in e['applied']]
                if 'mod' in kinds:
                    stats['runs_with_modification_placements'] = stats.get('runs_with_modification_placements', 0) + 1
                    ev.nontrivial_case([e['M'], len(e['mps']), e['applied']])
                for a in e['applied']:
                    if a['kind'] == 'mod' and a['m']:
                        nm = '+'.join(e['mps'][a['m'] - 1]['names'])
                        stats.setdefault('modification_mappings_applied', {}).setdefault(nm, 0)
                        stats['modification_mappings_applied'][nm] += 1
                # a modification applied before a later block / before the first block
                if _adds_particle(e):
                    stats['runs_with_created_particle'] = stats.get('runs_with_created_particle', 0) + 1
                if kinds[:2] == ['mod', 'mod']:
                    stats['runs_two_mods_before_the_first_block'] = stats.get('runs_two_mods_before_the_first_block', 0) + 1
                if any(k == 'mod' and 'block' in kinds[j + 1:] for j, k in enumerate(kinds)):
                    stats['runs_mod_before_a_block'] = stats.get('runs_mod_before_a_block', 0) + 1
                for k in ('warn_unmapped', 'warn_overlap', 'warn_modoverlap'):
                    if e[k]:
                        stats[k] = stats.get(k, 0) + 1
                if e['n_nomodmap']:
                    stats['runs_modification_without_mapping'] = stats.get('runs_modification_without_mapping', 0) + 1
            fails = [] if v == 'ok' else v.split(';')
            if e.get('err'):
                fails.append(e['err'])
            if fails:
                vd.violation('trace-rejected', _scenario_of(e, fails), '%s %s: %s' % (fam, e.get('label', ''), '; '.join(fails)))


def _scenario_of(e, fails):
    """What goes into a replay file: enough to re-run (generator key) and to evaluate the signatures; the mappings of the
    run are rebuilt from the key (the shipped ones are large)."""
    sc = {k: e[k] for k in e if k not in ('mps', 'M')}
    sc['failed_clauses'] = fails
    sc['adds_particle'] = _adds_particle(e)
    if e.get('family') != 'real':
        sc['M'] = e.get('M')
    return sc


def _gen_task(task):
    kind, arg = task
    if kind == 'x':
        return ('x', _run_chunk_x(arg))
    from . import c01_real
    return ('real', c01_real._real_chunk(arg))


def _cover_model_task(tier):
    """MC (in a pool worker): GCover against its declarative form on every small input; returns the summary and the table."""
    consts = {'Names': '{"a", "b", "c"}', 'MaxMaps': '3'} if tier == 'quick' else {'Names': '{"a", "b", "c", "d"}', 'MaxMaps': '3'}
    work = tlc.scratch('c01cover_')
    try:
        res = tlc.run('MappingCover', 'SPECIFICATION Spec\nINVARIANTS OptionsOrdered FoundIffCoverable FoundIsExactCover FoundIsFirst\n',
                      consts=consts, dump=True, coverage=True, timeout=1700, workers=2, workdir=work)
        rows = [([list(m['names']) for m in st['mps']], sorted(st['S']), st['res']['ok'], sorted(st['res']['sel']))
                for st in res.states() if st['res']['done']]
    finally:
        shutil.rmtree(work, ignore_errors=True)
    summary = {'ok': res.ok, 'violated': res.violated, 'distinct': res.distinct, 'generated': res.generated, 'depth': res.depth,
               'wall': res.wall, 'coverage': dict(res.coverage)}
    return summary, rows


def replay_cover_table(summary, table, ev, vd):
    """Every row of the TLC table into the real cover()."""
    import types
    import vermouth.processors.do_mapping as dm
    if not summary['ok']:
        raise tlc.MachineryError('MappingCover: GCover differs from its declarative form (%s)' % summary['violated'])
    ev.add_tlc('MC MappingCover', types.SimpleNamespace(**summary))
    ev.exhaustive = True
    rows = found = multi = 0
    for names, todo, exp_found, exp_sel in table:
        rows += 1
        known = {tuple(nm): j for j, nm in enumerate(names, 1)}
        got = dm.cover(list(todo), sorted(known, key=len, reverse=True))
        ev.traces += 1
        ev.evaluations += 1
        if exp_found:
            found += 1
            if len(exp_sel) >= 2:
                multi += 1
                ev.nontrivial_case([names, todo])
        if (got is not None) != exp_found or (exp_found and {known[tuple(k)] for k in got} != set(exp_sel)):
            vd.violation('cover-replay', {'kind': 'cover-replay', 'known': names, 'names': todo,
                                          'expected': exp_sel if exp_found else None,
                                          'got': None if got is None else [known[tuple(k)] for k in got]},
                         'cover() differs from the first exact cover in option order')
    if not rows or not found or not multi:
        raise tlc.MachineryError('MappingCover table is vacuous (%d rows, %d coverable, %d with two or more mappings)' % (rows, found, multi))
    ev.extra['cover_table'] = {'rows': rows, 'coverable': found, 'covers_of_two_or_more_mappings': multi}


def run(tier, seed, ev, vd):
    from . import c01_real
    ev.rule = ('block universe: random molecules of 1-5 residues over 8 residue types (linear / branched / cyclic, numbering gaps, '
               'identity / reversed / sparse shuffled node keys, insertion order independent of keys, unmapped hydrogens) with 6-7 '
               'mappings; non-trivial = at least two placements applied; distinct by (molecule, number of mappings).  '
               'modification universe: 2-7 residues, 0-4 modifications (6 modification mappings + one without mapping), PTM atoms '
               'inside the residue or appended at the end; real: tier-0 structures with the shipped mappings; for both non-trivial = '
               'at least one modification placement applied, distinct by (molecule, mappings, placements applied).  cover table: '
               'rows whose cover uses two or more mappings.')
    ev.assumptions = ['mappings are built as Mapping objects (the .map/.mapping grammar is C13); shipped mappings are the objects '
                      'read_mapping_directory returns',
                      'runs in which two block placements share their lowest atom, or two modification placements share their sort '
                      'key, are generated but not judged (order unspecified: set / dict iteration order decides)',
                      'atom names are unique within a residue',
                      'not generated: a modification mapping whose re-used particle does not exist (do_mapping raises ValueError) or '
                      'is ambiguous (two particles of that name among the candidates); modifications that rename a particle '
                      '(replace atomname) or a from-node with a LinkPredicate; mappings with disconnected from-graphs are judged '
                      '(shipped modification mappings have them) but not generated synthetically',
                      'the residue number of a particle created by a modification is required to be the renumbered number of a '
                      'block-made particle that shares an input residue with its atoms; block-made particles are numbered as if '
                      'created particles were absent',
                      'real data: secondary structure is not annotated (DSSP / -ss only set attributes DoMapping copies); float '
                      'weights are scaled to integers over the least common denominator of the run (tolerance 1e-9, checked); '
                      'attribute values are compared through canonical strings (Python-equal numbers get equal strings)',
                      "warnings required: unmapped-atom ('These atoms are not covered', \"Can't find modification mappings\"), "
                      "inconsistent-data ('covered by multiple blocks', 'Overlapping modification mappings'); the other "
                      'inconsistent-data warnings (garbage attributes, disconnected one-to-many, interaction set twice) are not judged']
    quick = tier == 'quick'
    n = 640 if quick else 16000
    n_x = 480 if quick else 8000
    cases = list(c01_real.REAL_CASES) + ([] if quick else list(c01_real.REAL_MORE) + [c01_real.PTYR_CASE])
    tasks = [('real', c) for c in cases] + [('x', (n_x // tlc.NCPU, seed * 104729 + 17 * i + 3)) for i in range(tlc.NCPU)]
    with mp.Pool(tlc.NCPU) as pool:
        async_x = pool.map_async(_gen_task, tasks, chunksize=1)
        parts = pool.map(_run_chunk, [(n // tlc.NCPU, seed * 7907 + i, False) for i in range(tlc.NCPU)])
        gen = async_x.get()
    events = [e for p in parts for e in p]
    x_events, real_ev, unsupported = [], [], []
    for kind, payload in gen:
        if kind == 'x':
            x_events += payload
        else:
            for status, val in payload:
                if status == 'ok':
                    real_ev += val
                else:
                    unsupported.append(val)
    if unsupported:
        raise tlc.MachineryError('real structure / shipped mapping outside the generic form: %s' % unsupported)
    cov = cover_events(random.Random(seed * 31 + 5), 400 if quick else 8000)
    # one pool of TLC processes for all recorded runs (the large real structures first) and for the cover model
    sh_real = [[e] for e in real_ev]
    sh_map = common.chunks(events, tlc.NCPU)
    sh_x = common.chunks(x_events + cov, max(1, tlc.NCPU - len(sh_real) if quick else tlc.NCPU))
    tasks = [('x', sh) for sh in sh_real] + [('x', sh) for sh in sh_x] + [('map', sh) for sh in sh_map] + [('cover-model', tier)]
    with mp.Pool(tlc.NCPU) as pool:
        outs = pool.map(_judge_any, tasks, chunksize=1)
    cover_summary, cover_table = outs.pop()
    o_real, o_x, o_map = outs[:len(sh_real)], outs[len(sh_real):len(sh_real) + len(sh_x)], outs[len(sh_real) + len(sh_x):]
    stats, events = judge_events(events, ev, vd, kinds=('map',), shards=sh_map, outs=o_map)
    ev.extra['runs_by_numbering'] = stats
    ev.extra['runs_with_overlap_warning'] = sum(1 for e in events if e['warn_overlap'])
    ev.extra['runs_with_unmapped_warning'] = sum(1 for e in events if e['warn_unmapped'])
    ev.tlc_runs.append({'run': 'TRACE Trace_Mapping (map)', 'events': len(events)})
    e0 = next(e for e in events if len(e['applied']) >= 3)
    ev.sample({'kind': 'recorded DoMapping run judged by TLC', 'molecule': e0['M'], 'applied': e0['applied'], 'particles': e0['parts'],
               'edges': e0['edges']})

    # --- modification universe, cover calls, real structures: generic judge
    xstats, rstats = {}, {}
    judge_x(x_events + cov, ev, vd, xstats, shards=sh_x, outs=o_x)
    judge_x(real_ev, ev, vd, rstats, shards=sh_real, outs=o_real)
    ev.extra['modification_universe'] = xstats
    ev.extra['real_structures'] = dict(rstats, cases=[e['label'] for e in real_ev],
                                       atoms=[len(e['M']['nodes']) for e in real_ev], mappings=[len(e['mps']) for e in real_ev],
                                       placements=[len(e['applied']) for e in real_ev], weight_denominator=[e['wden'] for e in real_ev])
    ev.tlc_runs.append({'run': 'TRACE Trace_Mapping (mapx: modification universe)', 'events': len(x_events)})
    ev.tlc_runs.append({'run': 'TRACE Trace_Mapping (cover)', 'events': len(cov)})
    ev.tlc_runs.append({'run': 'TRACE Trace_Mapping (mapx: real structures)', 'events': len(real_ev),
                        'tlc_wall_max_s': rstats.get('tlc_wall_max')})
    # vacuity: every feature of the new part must have been exercised
    applied = xstats.get('modification_mappings_applied', {})
    missing = [m for m in ('MT', 'MN', 'MN+MT', 'MP', 'MX', 'MS') if not applied.get(m)]
    for key in ('runs_modification_without_mapping', 'warn_modoverlap', 'runs_mod_before_a_block', 'warn_unmapped',
                'runs_two_mods_before_the_first_block'):
        if not xstats.get(key):
            missing.append(key)
    if missing and not vd.violations:
        raise tlc.MachineryError('modification universe never exercised: %s' % missing)
    if not vd.violations:
        if rstats.get('judged', {}).get('real', 0) != len(real_ev) or len(real_ev) < len(cases):
            raise tlc.MachineryError('real structures: %d molecules, %s judged, %d cases' % (len(real_ev), rstats.get('judged'), len(cases)))
        first = {'%s -> %s' % (c[0], c[1]) for c in c01_real.REAL_CASES}
        if any(sum(1 for a in e['applied'] if a['kind'] == 'mod') < (2 if e['label'].split(' (')[0] in first else 1) for e in real_ev):
            raise tlc.MachineryError('a real structure without its terminus modifications applied')
        if not xstats.get('runs_with_created_particle'):
            raise tlc.MachineryError('no run in which a modification creates a particle')
    ex = next((e for e in x_events if sum(1 for a in e['applied'] if a['kind'] == 'mod') >= 2 and not e['err']), None)
    if ex:
        ev.sample({'kind': 'recorded DoMapping run with modification mappings, judged by TLC (generic form)',
                   'atoms': [[n['id'], n['resid'], n['name'], n['mods']] for n in ex['M']['nodes']], 'bonds': ex['M']['edges'],
                   'applied': [[a['kind'], '+'.join(ex['mps'][a['m'] - 1]['names']), a['atoms']] for a in ex['applied']],
                   'particles': ex['parts'], 'edges': ex['edges'], 'interactions': ex['inters']})
    replay_cover_table(cover_summary, cover_table, ev, vd)
    er = real_ev[0]
    ev.sample({'kind': 'real structure judged by TLC', 'case': er['label'], 'atoms': len(er['M']['nodes']),
               'applied': [[a['kind'], '+'.join(er['mps'][a['m'] - 1]['names']), len(a['atoms'])] for a in er['applied']],
               'particles': [[p['key'], p['atomname'], p['resid'], p['atype']] for p in er['parts']]})


def replay(sc):
    if sc['kind'] == 'map':
        M = dict(sc['M'])
        M['insertion'] = [n['id'] for n in M['nodes']]
        amaps = abstract_maps(use_alt=len(sc['mps']) == len(MAPS))
        out, rec = run_real(M, amaps)
        for k in ('applied', 'parts', 'edges', 'warn_unmapped', 'warn_overlap'):
            print(k, 'now     :', rec[k])
            print(k, 'recorded:', sc[k])
    elif sc['kind'] == 'mapx':
        from . import c01_real
        key = sc.get('scenario', {})
        if 'xseed' in key:
            e = _run_chunk_x((key['xindex'] + 1, key['xseed']))[key['xindex']]
        else:
            e = c01_real.real_events(tuple(key['case']))[key['molecule']]
        d, g, verdicts, wall = _judge_x([e])
        print('verdict now     :', verdicts.get(1), e.get('err') or '')
        print('verdict recorded:', sc.get('failed_clauses'))
        for k in ('applied', 'parts', 'edges', 'inters', 'warn_unmapped', 'warn_overlap', 'warn_modoverlap', 'n_nomodmap'):
            print(k, 'now     :', e[k])
            print(k, 'recorded:', sc.get(k))
        return 0 if verdicts.get(1) == 'ok' and not e.get('err') else 1
    elif sc['kind'] == 'cover-replay':
        import vermouth.processors.do_mapping as dm
        known = {tuple(k): j for j, k in enumerate(sc['known'], 1)}
        got = dm.cover(list(sc['names']), sorted(known, key=len, reverse=True))
        print('cover now:', None if got is None else [known[tuple(k)] for k in got], 'expected:', sc['expected'])
    else:
        print(sc)
    return 0


def selftest(seed):
    import copy
    import os
    from . import c01_real
    events = [e for e in _run_chunk((30, seed, False)) if len(e['applied']) >= 2 and not e['err'] and e['edges']]
    good = events[0]
    b1 = copy.deepcopy(events[1])
    b1['edges'] = b1['edges'][1:]
    b2 = copy.deepcopy(events[2])
    b2['parts'][-1]['resid'] += 1
    ev = common.Evidence(PID, 'quick', seed)
    vd = common.Verdicts(PID, ev)
    judge_events([good, b1, b2], ev, vd)
    assert len(vd.violations) == 2, vd.violations
    print('selftest C01: tampered runs rejected:', [d.split(': ')[-1] for k, p, d in vd.violations])
    for k, p, d in vd.violations:
        os.path.exists(p) and os.remove(p)
    # generic form: a clean run with a particle-creating modification is accepted, each tampered copy is rejected with the
    # clause that names the tampering
    pool = [e for e in _run_chunk_x((80, seed + 1)) if not e['err']]
    d, g, verdicts, wall = _judge_x(pool)
    clean = [e for i, e in enumerate(pool, 1) if verdicts.get(i) == 'ok']
    mp_run = next(e for e in clean if any(a['kind'] == 'mod' and e['mps'][a['m'] - 1]['names'] == ['MP'] for a in e['applied']))
    po = next(i for i, p in enumerate(mp_run['parts']) if p['atomname'] == 'PO')
    sc_ = next(i for i, p in enumerate(mp_run['parts']) if p['atomname'] == 'SC' and p['mods'])
    t1 = copy.deepcopy(mp_run)
    t1['edges'] = [x for x in t1['edges'] if t1['parts'][po]['key'] not in x]                 # bond of the new particle lost
    t2 = copy.deepcopy(mp_run)
    t2['parts'][sc_]['atype'] = 'TSC'                                                        # re-used particle not changed
    t3 = copy.deepcopy(mp_run)
    t3['inters'] = [dict(x, params=['1', '0.4', '900']) if x['params'] == ['1', '0.41', '901'] else x for x in t3['inters']]   # block bond not replaced
    t4 = copy.deepcopy(mp_run)
    t4['parts'][po]['cons'] = t4['parts'][po]['cons'][:-1]                                    # a PTM atom dropped from the new particle
    t5 = copy.deepcopy(mp_run)
    first_mod = next(i for i, a in enumerate(t5['applied']) if a['kind'] == 'mod')
    t5['applied'][first_mod - 1], t5['applied'][first_mod] = t5['applied'][first_mod], t5['applied'][first_mod - 1]   # order
    nomap = next(e for e in clean if e['n_nomodmap'])
    t6 = copy.deepcopy(nomap)
    t6['n_nomodmap'] = 0                                                                      # missing-mapping warning lost
    real = c01_real.real_events(c01_real.REAL_CASES[0])[0]
    t7 = copy.deepcopy(real)
    bb = next(p for p in t7['parts'] if p['mods'])
    bb['cons'][0][1] += 1                                                                     # one real weight off by 1/denominator
    t8 = copy.deepcopy(real)
    t8['applied'] = [a for a in t8['applied'] if a['kind'] != 'mod'][:len(t8['applied'])]     # modification placements not applied
    tampered = [t1, t2, t3, t4, t5, t6, t7, t8]
    expect = ['bond-missing', 'particle-not-changed-as-the-modification-says', 'interactions-differ', 'constituents-or-weights-differ',
              'placements-or-their-order-differ', 'modification-without-mapping-not-reported', 'constituents-or-weights-differ',
              'number-of-placements-differs']
    d, g, verdicts, wall = _judge_x([mp_run, real] + tampered)
    assert verdicts.get(1) == 'ok' and verdicts.get(2) == 'ok', (verdicts.get(1), verdicts.get(2))
    for j, want in enumerate(expect, 3):
        assert want in verdicts.get(j, '').split(';'), (j, want, verdicts.get(j))
    print('selftest C01 (generic form): clean synthetic and real runs accepted; tampered runs rejected with',
          [verdicts[j] for j in range(3, 3 + len(expect))])
    return 0
