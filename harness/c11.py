"""C11 - the topology depends on the chemistry of the input, not on its presentation.

spec/PipelineEq.tla   (I) relation between two runs abstracted from their output files: equal particle lists, equal
                      interactions (as bags, numeric parameters within the last printed digit), coordinates related by the rigid
                      motion; (II) relation between two runs recorded STAGE BY STAGE (presentation-free abstraction after every
                      processor): the judge returns the first stage at which two presentations differ and how; (III) the only
                      admissible differences are items lying numerically on a geometric threshold.
spec/Trace_PipelineEq TLC judges pairs (base presentation, transformed presentation)

Two routes, both through the real command line:
  cli     every run is a real `bin/martinize2` SUBPROCESS in a scratch directory (the only route on which PYTHONHASHSEED can
          change); the output ITP / PDB are parsed by the independent readers;
  stages  the real `entry()` of bin/martinize2 runs in-process in a freshly forked worker (harness/c11_stages.py), `run_system` of
          every Processor subclass is wrapped and Abs(system) recorded after each stage; the files written by that run are
          judged as on the cli route.
Presentations: atoms re-ordered within their residues (`permute`), hydrogens renamed to fresh names in file order (`renameH`) or in
shuffled order (`renameHs`), the names of the hydrogens on one heavy atom permuted (`swapH`, `revH` = reversed), all hydrogen names of a residue
permuted (`scrambleH`, only together with `-bonds-from distance`: with name-based bonds a name that belongs to another hydrogen
states another chemistry), the structure rotated by a lattice rotation and translated (`motion`, exact on the 0.001 A grid of the
PDB format), combinations, a different PYTHONHASHSEED.  Chain and residue order are kept.
TLC is the relational oracle and localises; the exploration of presentations is sampling (level: exploration)."""
import math
import multiprocessing as mp
import os
import random
import shutil
import subprocess
import sys
import tempfile

from . import common, tlc, indep_readers, c11_stages
from .common import REPO

PID = 'C11'
LEVEL = 'exploration'
DATA = os.path.join(REPO, 'vermouth', 'tests', 'data', 'integration_tests')
INPUTS = {
    'dipro': os.path.join(DATA, 'tier-0', 'dipro-termini', 'aa.pdb'),
    'trpcage': os.path.join(DATA, 'tier-0', 'mini-protein3_trp-cage', 'aa.pdb'),
    'betasheet': os.path.join(DATA, 'tier-0', 'mini-protein1_betasheet', 'aa.pdb'),
    'helix': os.path.join(DATA, 'tier-0', 'mini-protein2_helix', 'aa.pdb'),
    '1UBQ': os.path.join(DATA, 'tier-1', '1UBQ', 'aa.pdb'),
    '3i40': os.path.join(DATA, 'tier-1', '3i40', '3i40.pdb'),
    'lysozyme': os.path.join(DATA, 'tier-1', 'lysozyme', 'aa.pdb'),
    '6LFO_gap': os.path.join(DATA, 'tier-1', '6LFO_gap', '6LFO_gap.pdb'),
}
GENERATED = {'trp+sheet': 'WS'}        # two DIFFERENT chains 60 A apart (two molecule types in one topology): cli_c03.multichain_pdb


def input_text(inp):
    if inp in GENERATED:
        from . import cli_c03
        return cli_c03.multichain_pdb(GENERATED[inp])
    return open(INPUTS[inp]).read()


TIER1 = ('1UBQ', '3i40', 'lysozyme', '6LFO_gap')       # crystal structures: no hydrogens, waters ignored
OPTION_SETS = {
    'default': ['-ff', 'martini3001'],
    'elastic': ['-ff', 'martini3001', '-elastic', '-eu', '0.85'],
    'posres': ['-ff', 'martini3001', '-p', 'backbone'],
    'm22-scfix': ['-ff', 'martini22'],
    'elnedyn': ['-ff', 'elnedyn22'],
    'ss': ['-ff', 'martini3001', '-ss', 'C'],
    'cys': ['-ff', 'martini3001', '-cys', 'auto'],
    'nt': ['-ff', 'martini3001', '-nt'],
    'nt-m22': ['-ff', 'martini22', '-nt', '-elastic'],
    # added with the stage-wise extension
    'elastic-chain': ['-ff', 'martini3001', '-elastic', '-eunit', 'chain'],
    'posres-all': ['-ff', 'martini3001', '-p', 'all'],
    'cys03': ['-ff', 'martini3001', '-cys', '0.3'],
    'ss-explicit': ['-ff', 'martini3001', '-ss', '@SS'],           # @SS: one letter per residue, generated from the input
    'dist-bonds': ['-ff', 'martini3001', '-bonds-from', 'distance'],
    'elastic-thr': ['-ff', 'martini3001', '-elastic', '-eu', '@EU'],   # @EU: exactly the length of the longest elastic bond of the base run
    'cys-thr': ['-ff', 'martini3001', '-cys', '@CYS'],                 # @CYS: exactly the distance of the closest pair of SG atoms
    'go': ['-ff', 'martini3001', '-go', '-go-eps', '9.0'],             # Go model with the contact map vermouth computes itself
    'mapdup': ['-ff', 'martini3001', '-map-dir', '@MAPDUP'],           # a user mapping directory with conflicting duplicates
}
ROTATIONS = [((1, 2, 3), (1, 1, 1)), ((2, 1, 3), (-1, 1, 1)), ((3, 1, 2), (1, 1, 1)), ((1, 3, 2), (1, -1, 1)), ((2, 3, 1), (1, 1, 1)),
             ((1, 2, 3), (-1, -1, 1))]
IDENT = c11_stages.IDENT
H_KINDS = ('renameH', 'renameHs', 'swapH', 'revH', 'scrambleH', 'digitH')


# ------------------------------------------------------------------------------------------------------- presentations
def _element(l):
    l = l.ljust(80)
    return l[76:78].strip() or l[12:16].strip().lstrip('0123456789')[:1]


def _xyz(l):
    return float(l[30:38]), float(l[38:46]), float(l[46:54])


def _residue_groups(lines):
    """Lists of line numbers of consecutive ATOM / HETATM records of one residue."""
    groups, cur, key = [], [], None
    for i, l in enumerate(lines):
        if l.startswith(('ATOM', 'HETATM')):
            k = l[17:27]
            if k != key and cur:
                groups.append(cur)
                cur = []
            key = k
            cur.append(i)
        elif cur:
            groups.append(cur)
            cur, key = [], None
    if cur:
        groups.append(cur)
    return groups


def _parents(lines, grp):
    """hydrogen line -> line of the closest heavy atom of the same residue."""
    heavy = [i for i in grp if _element(lines[i]) != 'H']
    out = {}
    for i in grp:
        if _element(lines[i]) == 'H' and heavy:
            p = _xyz(lines[i])
            out[i] = min(heavy, key=lambda j: sum((a - b) ** 2 for a, b in zip(p, _xyz(lines[j]))))
    return out


def _setname(l, name):
    l = l.ljust(80)
    return l[:12] + (name if len(name) == 4 else ' ' + name.ljust(3)) + l[16:]


def transform(text, kind, rng):
    """Return (new text, motion)."""
    lines = text.splitlines()
    motion = {'perm': [1, 2, 3], 'sg': [1, 1, 1], 'sh': [0, 0, 0]}
    atom_idx = [i for i, l in enumerate(lines) if l.startswith(('ATOM', 'HETATM'))]
    out = list(lines)
    if kind == 'permute':
        # reorder the atoms inside every residue, in place (TER and the like keep their position)
        for grp in _residue_groups(lines):
            new = [lines[i] for i in grp]
            rng.shuffle(new)
            for i, l in zip(grp, new):
                out[i] = l
        return '\n'.join(out) + '\n', motion      # CONECT records refer to serial numbers, which travel with their atoms
    if kind == 'digitH':
        # old-style hydrogen names that START WITH A DIGIT (1H0, 2H0, ...), fresh within each residue, and NO element column at
        # all: the element has to be read off the name (first letter), for the heavy atoms as well
        for grp in _residue_groups(lines):
            n = 0
            for i in grp:
                l = lines[i].ljust(80)
                if _element(l) == 'H':
                    l = _setname(l, '%dH%d' % (n % 9 + 1, n // 9))
                    n += 1
                out[i] = (l[:76] + '  ' + l[78:]).rstrip()
        return '\n'.join(out) + '\n', motion
    if kind == 'renameH':
        n = 0
        for i in atom_idx:
            if _element(lines[i]) == 'H':
                n += 1
                out[i] = _setname(lines[i], 'H%d' % (n % 90 + 10))
        return '\n'.join(out) + '\n', motion
    if kind in ('renameHs', 'swapH', 'revH', 'scrambleH'):
        for grp in _residue_groups(lines):
            hyd = [i for i in grp if _element(lines[i]) == 'H']
            if kind == 'renameHs':
                pool = ['H%d' % k for k in range(10, 100)]
                rng.shuffle(pool)
                sets = [(hyd, pool[:len(hyd)])]
            elif kind == 'scrambleH':
                sets = [(hyd, [lines[i][12:16] for i in hyd])]
            else:
                par = _parents(lines, grp)
                sets = []
                for p in sorted(set(par.values())):
                    sub = [i for i in hyd if par.get(i) == p]
                    sets.append((sub, [lines[i][12:16] for i in sub]))
            for idx, names in sets:
                names = list(names)
                if kind == 'revH':       # the hydrogens on one heavy atom exchange their names so that the name order is reversed
                    idx = sorted(idx, key=lambda i: lines[i][12:16])
                    names = sorted(names, reverse=True)
                else:
                    rng.shuffle(names)
                for i, nm in zip(idx, names):
                    out[i] = _setname(lines[i], nm)
        return '\n'.join(out) + '\n', motion
    if kind == 'motion':
        perm, sg = rng.choice(ROTATIONS[1:])
        sh = [rng.choice([-7000, 0, 12000, 3500]) for _ in range(3)]
        motion = {'perm': list(perm), 'sg': list(sg), 'sh': sh}
        for i in atom_idx:
            l = lines[i].ljust(80)
            c = [int(round(float(l[30:38]) * 1000)), int(round(float(l[38:46]) * 1000)), int(round(float(l[46:54]) * 1000))]
            m = [sg[d] * c[perm[d] - 1] + sh[d] for d in range(3)]
            out[i] = l[:30] + ''.join('%8.3f' % (v / 1000.0) for v in m) + l[54:]
        return '\n'.join(l for l in out if not l.startswith('CRYST1')) + '\n', motion
    return text, motion


def present(text, kinds, tseed):
    rng = random.Random(tseed)
    motion = dict(IDENT)
    for part in kinds.split('+'):
        text, m2 = transform(text, part, rng)
        if part == 'motion':
            motion = m2
    return text, motion


def nh3_termini(text):
    """[chain, resid, icode] of first residues of a chain that carry an NH3+ group (three hydrogens closest to N)."""
    lines = text.splitlines()
    out, prev_chain, first = [], None, True
    for grp in _residue_groups(lines):
        l = lines[grp[0]]
        if not l.startswith('ATOM'):
            continue
        chain = l[21]
        if first or chain != prev_chain:
            par = _parents(lines, grp)
            n_on_n = sum(1 for h, p in par.items() if lines[p][12:16].strip() == 'N')
            if n_on_n >= 3:
                out.append([chain.strip(), int(l[22:26]), l[26].strip()])
        prev_chain, first = chain, False
    return out


def interchain_conect(text):
    """True iff a CONECT record joins atoms of two TER-separated sections (the reader merges the two molecules)."""
    seg, where, found = 0, {}, False
    for l in text.splitlines():
        if l.startswith(('ATOM', 'HETATM')):
            try:
                where[int(l[6:11])] = seg
            except ValueError:
                pass
        elif l.startswith(('TER', 'ENDMDL')):
            seg += 1
        elif l.startswith('CONECT'):
            ids = [int(l[i:i + 5]) for i in range(6, len(l.rstrip()), 5) if l[i:i + 5].strip()]
            segs = {where[i] for i in ids if i in where}
            found = found or len(segs) > 1
    return found


def n_protein_residues(text):
    seen = []
    for l in text.splitlines():
        if l.startswith('ATOM') and l[17:20] != 'HOH':
            k = l[17:27]
            if not seen or seen[-1] != k:
                seen.append(k)
    return len(seen)


def closest_sg(text):
    sg = [_xyz(l) for l in text.splitlines() if l.startswith('ATOM') and l[12:16].strip() == 'SG' and l[17:20] == 'CYS']
    best = None
    for i in range(len(sg)):
        for j in range(i + 1, len(sg)):
            d = math.sqrt(sum((a / 10 - b / 10) ** 2 for a, b in zip(sg[i], sg[j])))
            if best is None or d < best:
                best = d
    return best


def mapdup_directory():
    """A user mapping directory that holds TWO old-style files for the same molecule and force-field pair (a kept earlier copy in a
    sub-directory, found by the recursive search) with different weights: which one is in effect
    may depend on the order the file system lists them in, never on the hash seed."""
    root = os.path.join(_SCRATCH, 'mapdup')
    if not os.path.isdir(root):
        os.makedirs(os.path.join(root, 'old'))
        for sub, atom in (('', 'CA'), ('old', 'N')):
            for name in ('gly',):
                lines = ['[ molecule ]', name.upper(), '[from]', 'charmm', '[to]', 'martini3001', '[ martini ]', 'BB', '[ atoms ]']
                for k, a in enumerate(('N', 'CA', 'C', 'O'), 1):
                    lines.append('%d %s %sBB' % (k, a, '' if a == atom else '!'))
                with open(os.path.join(root, sub, '%s.charmm.map' % name), 'w') as fh:
                    fh.write('\n'.join(lines) + '\n')
    return root


def options_for(inp, opt, base_text, probes):
    """Concrete option list, or None if a generated value is not available yet (needs the probe of a base run)."""
    out = []
    for tok in OPTION_SETS[opt]:
        if tok == '@SS':
            n = n_protein_residues(base_text)
            pat = 'CCHHHHHHHHCCEEEEECCTTSSEEEEECC' * (n // 30 + 1)
            tok = pat[:n]
        elif tok == '@CYS':
            d = closest_sg(base_text)
            if d is None:
                return None
            tok = repr(d)
        elif tok == '@MAPDUP':
            tok = mapdup_directory()
        elif tok == '@EU':
            if probes.get(inp) is None:
                return None
            tok = probes[inp]
        out.append(tok)
    if inp in TIER1:
        out += ['-ignore', 'HOH']
    return out


# ------------------------------------------------------------------------------------------------------------ running
def num(tok):
    return c11_stages.num(tok)


def abstract(root):
    return c11_stages.abstract_files(root)


def _run(args):
    text, options, hashseed, label = args
    root = tempfile.mkdtemp(prefix='c11_', dir=_SCRATCH)
    try:
        with open(os.path.join(root, 'in.pdb'), 'w') as fh:
            fh.write(text)
        cmd = [sys.executable, os.path.join(REPO, 'bin', 'martinize2'), '-f', 'in.pdb', '-x', 'cg.pdb', '-o', 'topol.top',
               '-maxwarn', '1000'] + options
        env = dict(os.environ)
        env['PYTHONPATH'] = REPO
        env['PYTHONHASHSEED'] = str(hashseed)
        p = subprocess.run(cmd, cwd=root, env=env, stdout=subprocess.PIPE, stderr=subprocess.PIPE, text=True, timeout=1500)
        if p.returncode != 0 or not os.path.exists(os.path.join(root, 'cg.pdb')):
            return {'ok': False, 'top': [], 'inters': [], 'coords': [], 'stderr': p.stderr[-400:], 'label': label}
        a = abstract(root)
        a['label'] = label
        a['stderr'] = ''
        return a
    except Exception as exc:      # noqa
        return {'ok': False, 'top': [], 'inters': [], 'coords': [], 'stderr': 'harness: %r' % (exc,), 'label': label}
    finally:
        shutil.rmtree(root, ignore_errors=True)


def _job(job):
    route, args = job
    if route == 'cli':
        return _run(args)
    return c11_stages.run_stages(args)


_SCRATCH = None
_COST = {'dipro': 1, 'trp+sheet': 2, 'trpcage': 1, 'betasheet': 1, 'helix': 2, '1UBQ': 2, '3i40': 2, 'lysozyme': 4, '6LFO_gap': 12}


def execute(jobs, costs):
    """Run the jobs (longest first) in freshly forked workers, one job per process."""
    if not jobs:
        return []
    order = sorted(range(len(jobs)), key=lambda i: -costs[i])
    if any(j[0] == 'stages' for j in jobs):
        c11_stages.preload()
    ctx = mp.get_context('fork')
    with ctx.Pool(min(tlc.NCPU, len(jobs)), maxtasksperchild=1) as pool:
        res = pool.map(_job, [jobs[i] for i in order], chunksize=1)
    out = [None] * len(jobs)
    for i, r in zip(order, res):
        out[i] = r
    return out


# ------------------------------------------------------------------------------------------------------------ planning
def pair_specs(tier, seed):
    """[(input, option set, [kinds on the cli route], [kinds on the stages route])]"""
    if os.environ.get('C11_PLAN'):           # debugging / mutation testing: an explicit plan
        import json
        return [tuple(x) for x in json.loads(os.environ['C11_PLAN'])]
    if tier == 'quick':
        return [
            ('dipro', 'default', ['permute', 'hashseed'], ['permute+renameHs+motion', 'swapH']),
            ('trpcage', 'elastic', ['renameH', 'hashseed'], ['permute', 'renameHs', 'permute+renameHs+motion']),
            ('dipro', 'm22-scfix', ['motion'], ['permute+swapH+motion']),
            ('trpcage', 'nt', ['permute', 'hashseed', 'hashseed', 'hashseed'], ['permute+renameHs+motion', 'revH']),
            ('betasheet', 'posres', ['renameH', 'hashseed'], ['swapH', 'permute+motion']),
            ('helix', 'nt-m22', ['hashseed'], []),
            ('trpcage', 'dist-bonds', [], ['scrambleH', 'scrambleH+permute+motion']),
            ('trpcage', 'ss-explicit', [], ['permute+renameHs+motion']),
            ('betasheet', 'cys-thr', [], ['motion', 'permute+renameHs+motion']),
            ('trpcage', 'go', ['hashseed'], ['permute+renameHs']),
            ('trpcage', 'mapdup', ['hashseed', 'hashseed', 'hashseed'], []),
            ('trp+sheet', 'default', ['hashseed', 'hashseed', 'hashseed', 'hashseed'], []),     # two molecule types in one .top
            ('trpcage', 'm22-scfix', ['digitH'], ['digitH+permute']),      # digit-first hydrogen names, no element column
        ]       # the elastic-thr family needs a probe run first (second wave): thorough tier only
    out = []
    t0 = ('dipro', 'trpcage', 'betasheet', 'helix')
    for inp in t0:
        for opt in ('default', 'elastic', 'posres', 'm22-scfix', 'elnedyn', 'ss', 'cys', 'nt', 'nt-m22'):
            nt = ['revH'] if opt.startswith('nt') else []
            out.append((inp, opt, ['permute', 'renameH+motion', 'hashseed'] + nt,
                        ['permute', 'swapH', 'renameHs+motion', 'permute+renameHs+motion'] + nt))
        for opt in ('elastic-chain', 'posres-all', 'cys03', 'ss-explicit'):
            out.append((inp, opt, ['hashseed'] if opt in ('elastic-chain', 'cys03') else [],
                        ['permute', 'renameHs', 'permute+renameHs+motion', 'permute+swapH+motion']))
        out.append((inp, 'dist-bonds', ['hashseed'], ['scrambleH', 'scrambleH+permute', 'scrambleH+permute+motion']))
        if inp != 'dipro':
            out.append((inp, 'elastic-thr', [], ['motion', 'permute+motion', 'permute+renameHs+motion', 'motion']))
    out.append(('betasheet', 'cys-thr', [], ['motion', 'permute+motion', 'permute+renameHs+motion', 'motion']))
    for inp in ('1UBQ', '3i40'):
        for opt in ('default', 'elastic-chain', 'posres-all', 'cys03', 'nt', 'ss-explicit', 'elnedyn'):
            out.append((inp, opt, ['hashseed'] if opt in ('default', 'elastic-chain', 'nt', 'elnedyn') or inp == '3i40' else [],
                        ['permute', 'permute+motion'] if inp == '1UBQ' else ['permute', 'motion', 'permute+motion']))
        out.append((inp, 'elastic-thr', [], ['motion', 'permute+motion']))
    for opt in ('elastic-chain', 'cys03', 'nt'):
        out.append(('lysozyme', opt, ['hashseed'] if opt == 'elastic-chain' else [], ['permute+motion']))
    out.append(('3i40', 'cys-thr', [], ['motion', 'permute+motion', 'motion']))
    out.append(('lysozyme', 'cys-thr', [], ['motion', 'permute+motion']))
    out.append(('trpcage', 'mapdup', ['hashseed'] * 5, []))
    out.append(('trp+sheet', 'default', ['hashseed'] * 6, ['permute+renameHs+motion']))
    out.append(('trp+sheet', 'elastic', ['hashseed'] * 3, []))
    for inp in t0:
        out.append((inp, 'elnedyn', ['digitH'], ['digitH+permute+motion']))
        out.append((inp, 'posres-all', [], ['digitH']))
    out.append(('betasheet', 'mapdup', ['hashseed'] * 5, []))
    for inp in ('trpcage', 'betasheet', '3i40', '1UBQ'):       # Go model with the self-computed contact map (no rigid motion:
        out.append((inp, 'go', ['permute', 'hashseed'], ['permute', 'permute+renameHs']))      # contacts sit on many thresholds)
    for opt in ('elastic-chain', 'cys03', 'nt'):
        out.append(('6LFO_gap', opt, ['hashseed'] if opt == 'elastic-chain' else [], ['permute+motion']))
    return out


class Pair:
    def __init__(self, route, inp, opt, kinds, n, seed):
        self.route, self.inp, self.opt, self.kinds, self.n = route, inp, opt, kinds, n
        self.tseed = '%s/%s/%s/%s/%d' % (seed, inp, opt, kinds, n)
        # several hashseed pairs of one spec use different seeds: set-iteration order is a lottery, more tickets see more orders
        self.hs = [1, 2, 3, 7, 11, 13][(n + random.Random('%s/%s/%s' % (seed, inp, opt)).randrange(6)) % 6] if kinds == 'hashseed' else 0
        self.base = self.two = None     # indices into the job list
        self.motion = dict(IDENT)
        self.options = None

    def what(self):
        return [self.inp, self.opt, self.kinds, self.hs, self.route]

    def scenario(self, verdict, r1, r2, nh3):
        return {'what': self.what(), 'route': self.route, 'input': self.inp, 'option_set': self.opt, 'options': self.options,
                'kinds': self.kinds, 'hashseed': self.hs, 'tseed': self.tseed, 'motion': self.motion, 'verdict': verdict,
                'nh3_termini': nh3, 'interchain_conect': interchain_conect(input_text(self.inp)), 'stderr_two': (r2.get('stderr') or '')[-300:],
                'particles': [len((r1.get('files') or r1)['top']), len((r2.get('files') or r2)['top'])]}


# ------------------------------------------------------------------------------------- known finding C11-nt-nh3
def _is_nt_nh3(kind, sc):
    """-nt (NH2-ter) on a chain that starts with an NH3+ group: which of the three equivalent hydrogens is dropped follows the
    NAME ORDER of the hydrogens, so renaming them moves the N-terminal backbone bead (and parameters computed from it)."""
    if '-nt' not in sc.get('options', []) or not sc.get('nh3_termini'):
        return False
    if not any(k in sc.get('kinds', '') for k in H_KINDS):
        return False
    v = sc.get('verdict', {})
    if sc.get('route') == 'stages':
        if not (v.get('st') == 'differs' and v.get('files') != 'ok' and str(v.get('name', '')).startswith(('RepairGraph', 'CanonicalizeModifications'))
                and v.get('how') == 'coordinates not following the motion'):
            return False
        w = v.get('where') or []
        return bool(w) and all(list(x[0][:3]) in sc['nh3_termini'] and x[0][3] == 'H@N' for x in w)
    # file level: only the first bead of a molecule moves, only interaction lines that involve atom 1 differ
    if v.get('st') not in ('interactions-differ', 'coordinates-do-not-follow-the-rigid-motion'):
        return False
    w = v.get('cliwhere') or {}
    return bool(w) and bool(w.get('coords')) and all(i in sc.get('first_beads', []) for i in w.get('coords', [])) \
        and all(1 in atoms for atoms in w.get('inters', []))


SIGNATURES = {'C11-nt-nh3': _is_nt_nh3}


# --------------------------------------------------------------------------------------------------------------- judge
def _slim(r):
    return {k: r[k] for k in ('ok', 'top', 'inters', 'coords')}


def _stage_run(r):
    out = {k: r[k] for k in ('ok', 'names', 'idx') + c11_stages.COMPONENTS}
    out['files'] = _slim(r['files'])
    return out


def _thr_items(r1, r2):
    out = []
    for t in r1['thr'] + r2['thr']:
        item = {k: t[k] for k in ('kind', 'ra', 'rb', 'ka', 'kb')}
        if item not in out:
            out.append(item)
    return out


def judge(cli_pairs, stage_groups, ev, name, timeout=3000):
    """cli_pairs: [(r1, r2, motion)]; stage_groups: [[(r1, r2, motion)...]] (pairs of one group share their base run).
    Returns (cli verdicts, stage verdicts per group) - verdict records as Python dicts."""
    batches = []
    if cli_pairs:
        batches.append(('cli', {'cli': [{'one': _slim(a), 'two': _slim(b), 'motion': m} for a, b, m in cli_pairs], 'runs': [], 'pairs': []}))
    # shard the stage-wise groups by volume
    shards, cur, vol = [], [], 0
    for gi, grp in enumerate(stage_groups):
        size = sum(len(r2['occ']) and sum(len(t) for t in r2['occ']) for _, r2, _ in grp) + 1
        if cur and vol + size > 60000:
            shards.append(cur)
            cur, vol = [], 0
        cur.append(gi)
        vol += size
    if cur:
        shards.append(cur)
    for sh in shards:
        runs, pairs, ref = [], [], []
        for gi in sh:
            grp = stage_groups[gi]
            runs.append(_stage_run(grp[0][0]))
            b = len(runs)
            for pi, (r1, r2, m) in enumerate(grp):
                runs.append(_stage_run(r2))
                thr = _thr_items(r1, r2)
                pairs.append({'one': b, 'two': len(runs), 'motion': m, 'thr': thr, 'fadm': c11_stages.file_admissions(thr, [r1, r2])})
                ref.append((gi, pi))
        batches.append((ref, {'cli': [], 'runs': runs, 'pairs': pairs}))

    def one(item):
        tag, doc = item
        work = tlc.scratch('c11_')
        tf = tlc.write_json(work, 'trace.json', doc)
        res = tlc.run('Trace_PipelineEq', 'SPECIFICATION Spec\n', dump=True, env={'TRACE_FILE': tf}, workdir=work, workers=4, timeout=timeout)
        return tag, res, {st['tid']: st['verdict'] for st in res.states() if st['verdict']['st'] != 'pending'}

    from concurrent.futures import ThreadPoolExecutor
    with ThreadPoolExecutor(max_workers=4) as tp:
        done = list(tp.map(one, batches))
    cli_v = {}
    stage_v = {}
    for k, (tag, res, verdicts) in enumerate(done):
        ev.add_tlc('TRACE Trace_PipelineEq %s %d' % (name, k), res)
        if tag == 'cli':
            cli_v = {i - 1: verdicts.get(i, {'st': 'no-verdict'}) for i in range(1, len(cli_pairs) + 1)}
        else:
            for i, ref in enumerate(tag, 1):
                stage_v[ref] = verdicts.get(i, {'st': 'no-verdict'})
    return cli_v, stage_v


def _cliwhere(r1, r2, motion):
    """Projection for the signature of the known finding only (never decides a verdict): particles whose written
    coordinates do not follow the motion, atoms of interaction lines without an identical partner."""
    out = {'coords': [], 'inters': []}
    if len(r1['coords']) == len(r2['coords']):
        for i, (a, b) in enumerate(zip(r1['coords'], r2['coords']), 1):
            m = [motion['sg'][d] * a[motion['perm'][d] - 1] + motion['sh'][d] for d in range(3)]
            if any(abs(m[d] - b[d]) > 2 for d in range(3)):
                out['coords'].append(i)
    s2 = [(x['sec'], x['atoms'], [(p['k'], p['s'], p['n']) for p in x['params']]) for x in r2['inters']]
    for x in r1['inters']:
        if (x['sec'], x['atoms'], [(p['k'], p['s'], p['n']) for p in x['params']]) not in s2:
            out['inters'].append(x['atoms'])
    return out


def _first_beads(r):
    """1-based positions, in the written structure, of the first particle of every residue numbered 1."""
    return [i for i, t in enumerate(r['top'], 1) if t['resid'] == '1' and (i == 1 or r['top'][i - 2]['resid'] != '1')]


def _tidy(v):
    """TLA+ value (tuples / frozensets) -> JSON-able."""
    if isinstance(v, dict):
        return {k: _tidy(x) for k, x in v.items()}
    if isinstance(v, (tuple, list)):
        return [_tidy(x) for x in v]
    if isinstance(v, frozenset):
        return sorted((_tidy(x) for x in v), key=repr)
    return v


def run(tier, seed, ev, vd):
    global _SCRATCH
    _SCRATCH = tlc.scratch('c11fs_')
    ev.rule = ('pairs (base, transformed) of real martinize2 runs: inputs x option sets x presentations {atoms permuted within '
               'residues, hydrogens renamed (file order / shuffled / names swapped on one heavy atom / scrambled with '
               '-bonds-from distance), lattice rotation + translation, combinations, other PYTHONHASHSEED} on two routes '
               '(cli = subprocess, files only; stages = in-process entry() recorded after every Processor.run_system). '
               'Non-trivial = both runs produced a topology with >= 2 particles; distinct by (input, options, '
               'presentation, seed, route).')
    ev.assumptions = ['lattice rotations map the 0.001 A grid of the PDB format onto itself, so the transformed input is exact',
                      'numeric parameters are compared with a tolerance of 2 units in the 4th decimal, coordinates 0.002 A; more than '
                      '300 interaction lines without an identical partner are not regarded as float noise',
                      'the DSSP executable path is not exercised (no binary); -maxwarn 1000 so that warnings do not hide the output',
                      'exploration of presentations is sampling, not enumeration',
                      'stage-wise abstraction: a hydrogen is keyed by the heavy atoms it is bonded to (which of two hydrogens on one '
                      'atom receives which canonical name is decided by name order and is not chemistry); heavy atoms and beads by '
                      '(chain, resid, insertion code, name); PYTHONHASHSEED cannot change in-process and stays on the subprocess route',
                      'not generated: hydrogen names permuted across heavy atoms together with name-based bond guessing (a hydrogen '
                      'called HA that sits on CB states another chemistry; reproduced: MakeBonds bonds it to CA) - such scrambling is '
                      'only generated with -bonds-from distance',
                      'items on a threshold (guessed bond fudge*(r1+r2)/2, -cys distance, elastic upper cut-off) are recomputed by the '
                      'driver from the coordinates the real processor receives, 1e-6 relative band; the option values of the '
                      'elastic-thr / cys-thr families are chosen to lie exactly on a pair distance']
    specs = pair_specs(tier, seed)
    texts = {inp: input_text(inp) for inp in list(INPUTS) + list(GENERATED)}
    nh3 = {inp: nh3_termini(texts[inp]) for inp in texts}
    probes = {}
    pending = []
    for inp, opt, ck, sk in specs:
        ps = [Pair('cli', inp, opt, k, n, seed) for n, k in enumerate(ck)] + [Pair('stages', inp, opt, k, n, seed) for n, k in enumerate(sk)]
        pending.append((inp, opt, ps))
    all_pairs, all_jobs, all_res = [], [], []
    import time
    t_start = time.time()
    for phase in (1, 2):
        jobs, costs, todo = [], [], []
        for inp, opt, ps in pending:
            if ('@EU' in OPTION_SETS[opt]) != (phase == 2):
                continue
            options = options_for(inp, opt, texts[inp], probes)
            if options is None:
                raise tlc.MachineryError('no generated option value for %s/%s' % (inp, opt))
            base = {}
            for p in ps:
                p.options = options
                if p.route not in base:
                    if p.route == 'cli':
                        jobs.append(('cli', (texts[inp], options, 0, '%s/%s/base' % (inp, opt))))
                    else:
                        jobs.append(('stages', (texts[inp], options, dict(IDENT), '%s/%s/base' % (inp, opt), _SCRATCH)))
                    costs.append(_COST[inp])
                    base[p.route] = len(all_jobs) + len(jobs) - 1
                p.base = base[p.route]
                if p.kinds == 'hashseed':
                    text = texts[inp]
                else:
                    text, p.motion = present(texts[inp], p.kinds, p.tseed)
                label = '%s/%s/%s' % (inp, opt, p.kinds)
                if p.route == 'cli':
                    jobs.append(('cli', (text, options, p.hs, label)))
                else:
                    jobs.append(('stages', (text, options, p.motion, label, _SCRATCH)))
                costs.append(_COST[inp])
                p.two = len(all_jobs) + len(jobs) - 1
                todo.append(p)
        if phase == 1:
            # probe runs: the longest pair distance below the cut-off of an ordinary elastic run becomes the cut-off of 'elastic-thr'
            need = sorted({inp for inp, opt, _ in pending if '@EU' in OPTION_SETS[opt]})
            for inp in need:
                jobs.append(('stages', (texts[inp], options_for(inp, 'elastic', texts[inp], probes), dict(IDENT), 'probe/%s' % inp, _SCRATCH)))
                costs.append(_COST[inp])
        res = execute(jobs, costs)
        if phase == 1:
            for inp, r in zip(need, res[len(res) - len(need):]):
                probes[inp] = (r.get('probe') or {}).get('elastic')
                if probes[inp] is None:
                    raise tlc.MachineryError('probe run for %s gave no elastic pair: %s %s' % (inp, r.get('stderr'), r.get('harness_error')))
        all_jobs += jobs
        all_res += res
        all_pairs += todo
    ev.extra['martinize2_runs'] = len(all_jobs)
    ev.extra['wall_runs_s'] = round(time.time() - t_start, 1)

    for r in all_res:
        if r.get('harness_error'):
            raise tlc.MachineryError('stage recorder failed (%s): %s' % (r.get('label'), r['harness_error']))
    cli_pairs = [p for p in all_pairs if p.route == 'cli']
    groups = {}
    for p in all_pairs:
        if p.route == 'stages':
            groups.setdefault(p.base, []).append(p)
    group_list = list(groups.values())
    cli_v, stage_v = judge([(all_res[p.base], all_res[p.two], p.motion) for p in cli_pairs],
                           [[(all_res[p.base], all_res[p.two], p.motion) for p in g] for g in group_list], ev, tier)
    report(cli_pairs, cli_v, group_list, stage_v, all_res, nh3, ev, vd)
    # the pipeline composition itself (spec/Martinize.tla): stage order and contracts for every option vector, replayed into entry()
    if not os.environ.get('C11_PLAN'):
        from . import pipeline
        pipeline.run_part(tier, seed, ev, vd)


def report(cli_pairs, cli_v, group_list, stage_v, all_res, nh3, ev, vd):
    admissible, transient, on_thr, on_thr_list = [], [], 0, []
    stage_names = set()
    first = True
    for i, p in enumerate(cli_pairs):
        r1, r2 = all_res[p.base], all_res[p.two]
        v = _tidy(cli_v.get(i, {'st': 'no-verdict'}))
        ev.traces += 1
        ev.evaluations += 2
        if not r1['ok']:
            raise tlc.MachineryError('base run failed for %s: %s' % (p.what(), r1.get('stderr')))
        if len(r1['top']) >= 2 and r2['ok']:
            ev.nontrivial_case(p.what())
        if v['st'] != 'ok':
            sc = p.scenario(v, r1, r2, nh3[p.inp])
            sc['verdict']['cliwhere'] = _cliwhere(r1, r2, p.motion) if r2['ok'] else {}
            sc['first_beads'] = _first_beads(r1)
            vd.violation('trace-rejected', sc, '%s: %s %s' % (p.what(), v['st'], (r2.get('stderr') or '')[-200:]))
        if first:
            ev.sample({'kind': 'pair of real martinize2 subprocess runs judged by TLC', 'what': p.what(), 'particles': len(r1['top']),
                       'interactions': len(r1['inters']), 'motion': p.motion})
            first = False
    first = True
    for gi, grp in enumerate(group_list):
        for pi, p in enumerate(grp):
            r1, r2 = all_res[p.base], all_res[p.two]
            v = _tidy(stage_v.get((gi, pi), {'st': 'no-verdict'}))
            ev.traces += 1
            ev.evaluations += len(r1['names']) + len(r2['names'])
            if not r1['ok']:
                raise tlc.MachineryError('base run failed for %s: %s' % (p.what(), r1.get('stderr')))
            if len(r1['names']) < 10:
                raise tlc.MachineryError('only %d stages recorded for %s' % (len(r1['names']), p.what()))
            stage_names.update(n.split('#')[0] for n in r1['names'])
            if len(r1['files']['top']) >= 2 and r2['ok']:
                ev.nontrivial_case(p.what())
            thr = _thr_items(r1, r2)
            on_thr += 1 if thr else 0
            if thr and len(on_thr_list) < 40:
                on_thr_list.append({'what': p.what(), 'items': [[t['kind'], t['ka'], t['kb']] for t in thr][:4]})
            brief = {k: v.get(k) for k in ('st', 'stage', 'name', 'how', 'pstage', 'nbad', 'adm', 'files')}
            good = v['st'] == 'ok' and v.get('files') in ('ok', 'ok-admissible')
            if good and (v.get('adm', 0) > 0 or v.get('files') == 'ok-admissible'):
                admissible.append({'what': p.what(), 'options': p.options, 'differences_admitted_over_all_stages': v.get('adm', 0),
                                   'files': v.get('files'), 'items_on_threshold': [dict(t, d=x['d'], t=x['t']) for t in thr
                                                                                  for x in (r1['thr'] + r2['thr'])
                                                                                  if all(x[k] == t[k] for k in ('kind', 'ka', 'kb'))][:6]})
            if good and v.get('nbad', 0) > 0:
                transient.append({'what': p.what(), 'verdict': brief})
            if not good:
                sc = p.scenario(v, r1, r2, nh3[p.inp])
                if r2['ok']:
                    sc['verdict']['cliwhere'] = _cliwhere(r1['files'], r2['files'], p.motion)
                sc['first_beads'] = _first_beads(r1['files'])
                if v.get('stage'):
                    where = '%s: first difference after stage %s %s: %s (differs without interruption from stage %s on; files: %s)' % (
                        p.what(), v.get('stage'), v.get('name'), v.get('how'), v.get('pstage'), v.get('files'))
                else:
                    where = '%s: %s / files %s' % (p.what(), v['st'], v.get('files'))
                vd.violation('stage-differs' if v['st'] == 'differs' else 'trace-rejected', sc,
                             where + ' ' + repr(v.get('where'))[:300] + ' ' + (r2.get('stderr') or '')[-200:])
            if first:
                ev.sample({'kind': 'pair of in-process entry() runs recorded after every Processor.run_system, judged by TLC',
                           'what': p.what(), 'stages': r1['names'], 'verdict': brief})
                first = False
    ev.extra['stage_processors_observed'] = sorted(stage_names)
    ev.extra['pairs_with_an_item_on_a_threshold'] = on_thr
    ev.extra['pairs_with_an_item_on_a_threshold_list'] = on_thr_list
    ev.extra['pairs_differing_only_by_items_on_a_threshold'] = admissible
    ev.extra['pairs_with_a_transient_difference_and_equal_output'] = transient[:40]
    ev.extra['pairs_with_a_transient_difference_count'] = len(transient)
    if group_list and not os.environ.get('C11_PLAN'):
        missing = {'PDBInput', 'MakeBonds', 'RepairGraph', 'CanonicalizeModifications', 'DoMapping', 'DoAverageBead', 'DoLinks',
                   'ApplyRubberBand', 'SortMoleculeAtoms'} - stage_names
        if missing:
            raise tlc.MachineryError('stages never observed: %s' % sorted(missing))
    if group_list and on_thr == 0 and not os.environ.get('C11_PLAN'):
        raise tlc.MachineryError('no pair with an item on a geometric threshold: the admissible-difference rule was not exercised')


# ----------------------------------------------------------------------------------------------------- replay / selftest
def replay(sc):
    """Re-run one recorded pair on its route and let TLC judge it again."""
    global _SCRATCH
    if sc.get('family') == 'pipeline':
        from . import pipeline
        return pipeline.replay(sc)
    _SCRATCH = tlc.scratch('c11r_')
    inp, options, kinds = sc['input'], sc['options'], sc['kinds']
    base = input_text(inp)
    if kinds == 'hashseed':
        text, motion = base, dict(IDENT)
    else:
        text, motion = present(base, kinds, sc['tseed'])
    ev = common.Evidence(PID, 'replay', 0, LEVEL)
    if sc['route'] == 'cli':
        res = execute([('cli', (base, options, 0, 'base')), ('cli', (text, options, sc.get('hashseed', 0), kinds))], [1, 1])
        cli_v, _ = judge([(res[0], res[1], motion)], [], ev, 'replay')
        v = _tidy(cli_v[0])
    else:
        res = execute([('stages', (base, options, dict(IDENT), 'base', _SCRATCH)), ('stages', (text, options, motion, kinds, _SCRATCH))], [1, 1])
        _, stage_v = judge([], [[(res[0], res[1], motion)]], ev, 'replay')
        v = _tidy(stage_v[(0, 0)])
    print('replay C11 %s %s %s: %s' % (inp, ' '.join(options), kinds, {k: v.get(k) for k in ('st', 'stage', 'name', 'how', 'where', 'adm', 'files')}))
    good = v['st'] == 'ok' and v.get('files', 'ok') in ('ok', 'ok-admissible', '')
    return 0 if good else 1


def selftest(seed):
    global _SCRATCH
    import copy
    from . import pipeline
    pipeline.selftest_part(seed)
    _SCRATCH = tlc.scratch('c11s_')
    base = input_text('trpcage')
    opts = OPTION_SETS['elastic']
    moved, motion = present(base, 'permute+motion', 'selftest')
    res = execute([('cli', (input_text('dipro'), OPTION_SETS['default'], 0, 'base')),
                   ('stages', (base, opts, dict(IDENT), 'base', _SCRATCH)), ('stages', (moved, opts, motion, 'moved', _SCRATCH))], [1, 1, 1])
    r, s1, s2 = res
    assert r['ok'] and s1['ok'] and s2['ok'], (r.get('stderr'), s1.get('stderr'), s1.get('harness_error'), s2.get('stderr'))
    # (I) file level, as before
    bad = copy.deepcopy(r)
    bad['inters'][0]['params'][-1] = {'k': 'n', 's': '', 'n': 123456}
    bad2 = copy.deepcopy(r)
    bad2['coords'][0][0] += 50
    ev = common.Evidence(PID, 'selftest', 0, LEVEL)

    # (II) stage level: tamper with ONE recorded field of the transformed run at a chosen stage
    def tamper(fn):
        t = copy.deepcopy(s2)
        fn(t)
        return t

    names = s2['names']
    i_map = next(i for i, n in enumerate(names) if n.startswith('DoMapping'))
    i_avg = next(i for i, n in enumerate(names) if n.startswith('DoAverageBead'))
    i_rb = next(i for i, n in enumerate(names) if n.startswith('ApplyRubberBand'))
    i_mb = next(i for i, n in enumerate(names) if n.startswith('MakeBonds'))

    def fork(t, stage, comp):
        """give stage `stage` and all later ones that share it a private copy of table `comp`; return the copy."""
        c = c11_stages.COMPONENTS.index(comp)
        old = t['idx'][stage][c]
        t[comp].append(copy.deepcopy(t[comp][old - 1]))
        for row in t['idx'][stage:]:
            if row[c] == old:
                row[c] = len(t[comp])
        return t[comp][-1]

    def t_atoms(t):
        fork(t, i_map, 'atoms')[0][1][2] = 'XX'                 # bead type of one particle after DoMapping

    def t_coord(t):
        fork(t, i_avg, 'occ')[3][3][0] += 40                    # one bead 0.04 A off after DoAverageBead

    def t_part(t):
        fork(t, i_mb, 'occ')[5][1] = 1                          # one atom in another molecule after MakeBonds

    def t_edge(t):
        fork(t, i_mb, 'edges').pop(7)                           # one bond missing after MakeBonds

    rb = [x for x in s2['inters'][s2['idx'][i_rb][2] - 1] if 'Rubber band' in x[3]]
    victim = rb[len(rb) // 2]

    def t_inter(t):
        tab = fork(t, i_rb, 'inters')
        tab.remove(victim)                                       # one elastic bond missing after ApplyRubberBand

    thr_item = {'kind': 'elastic', 'ra': victim[1][0][:3], 'rb': victim[1][1][:3], 'ka': min(victim[1]), 'kb': max(victim[1]), 'd': '0', 't': '0'}

    def t_inter_listed(t):
        t_inter(t)
        t['thr'] = t['thr'] + [thr_item]                        # ... but that pair is listed as lying on the cut-off
        # the file of the tampered run loses the same line
        ka, kb = thr_item['ka'], thr_item['kb']
        keys = t['final'][0]['keys']
        ia, ib = keys.index(ka) + 1, keys.index(kb) + 1
        t['files'] = copy.deepcopy(t['files'])
        t['files']['inters'] = [x for x in t['files']['inters'] if sorted(x['atoms']) != sorted([ia, ib]) or len(x['params']) != 3
                                or not x['sec'].endswith(':bonds')]

    cases = [('identical', s2, 'ok'), ('atoms', tamper(t_atoms), 'atoms'), ('coordinates', tamper(t_coord), 'coordinates not following the motion'),
             ('partition', tamper(t_part), 'molecule partition'), ('bonds', tamper(t_edge), 'bonds'),
             ('interactions', tamper(t_inter), 'interactions'), ('interaction on the threshold list', tamper(t_inter_listed), 'admitted')]
    cli_v, stage_v = judge([(r, r, IDENT), (r, bad, IDENT), (r, bad2, IDENT)], [[(s1, t, motion) for _, t, _ in cases]], ev, 'selftest')
    assert cli_v[0]['st'] == 'ok' and cli_v[1]['st'] != 'ok' and cli_v[2]['st'] != 'ok', cli_v
    print('selftest C11: tampered file-level pairs rejected:', cli_v[1]['st'], '/', cli_v[2]['st'])
    expect_stage = {'atoms': i_map, 'coordinates': i_avg, 'partition': i_mb, 'bonds': i_mb, 'interactions': i_rb}
    for k, (label, _, how) in enumerate(cases):
        v = _tidy(stage_v[(0, k)])
        brief = {x: v.get(x) for x in ('st', 'stage', 'name', 'how', 'pstage', 'nbad', 'adm', 'files')}
        if how == 'ok':
            assert v['st'] == 'ok' and v['adm'] == 0 and v['nbad'] == 0 and v['files'] == 'ok', brief
        elif how == 'admitted':
            assert v['st'] == 'ok' and v['adm'] == 1 and v['nbad'] == 0 and v['files'] == 'ok-admissible', brief
        elif label in ('partition', 'bonds'):
            # RepairGraph rebuilds these tables: the tampering is localised, but it does not reach the output (transient)
            assert v['st'] == 'ok' and v['nbad'] >= 1 and v['how'] == how and v['stage'] == expect_stage[label] + 1, (label, brief)
        else:
            assert v['st'] == 'differs' and v['how'] == how and v['stage'] == expect_stage[label] + 1 == v['pstage'], (label, brief)
        print('selftest C11: %-34s -> %s' % (label, brief))
    return 0
