"""C11 - the topology depends on the chemistry of the input, not on its presentation.

spec/PipelineEq.tla   relation between two runs abstracted from their output files: equal particle lists, equal interactions
                      (as bags, numeric parameters within the last printed digit), coordinates related by the rigid motion
spec/Trace_PipelineEq TLC judges pairs (base presentation, transformed presentation)

Every run is a real `bin/martinize2` subprocess in a scratch directory; the output ITP / PDB are parsed by the independent
readers.  Presentations: atoms re-ordered within their residues, hydrogens renamed, the structure rotated by a lattice
rotation and translated (exact on the 0.001 A grid of the PDB format), a different PYTHONHASHSEED.  TLC is the relational
oracle; the exploration of presentations is sampling (level: exploration)."""
import multiprocessing as mp
import os
import random
import re
import shutil
import subprocess
import sys
import tempfile

from . import common, tlc, indep_readers
from .common import REPO

PID = 'C11'
LEVEL = 'exploration'
DATA = os.path.join(REPO, 'vermouth', 'tests', 'data', 'integration_tests')
INPUTS = {
    'dipro': os.path.join(DATA, 'tier-0', 'dipro-termini', 'aa.pdb'),
    'trpcage': os.path.join(DATA, 'tier-0', 'mini-protein3_trp-cage', 'aa.pdb'),
    'betasheet': os.path.join(DATA, 'tier-0', 'mini-protein1_betasheet', 'aa.pdb'),
    'helix': os.path.join(DATA, 'tier-0', 'mini-protein2_helix', 'aa.pdb'),
}
OPTION_SETS = {
    'default': ['-ff', 'martini3001'],
    'elastic': ['-ff', 'martini3001', '-elastic', '-eu', '0.85'],
    'posres': ['-ff', 'martini3001', '-p', 'backbone'],
    'm22-scfix': ['-ff', 'martini22'],
    'elnedyn': ['-ff', 'elnedyn22'],
    'ss': ['-ff', 'martini3001', '-ss', 'C'],
    'cys': ['-ff', 'martini3001', '-cys', 'auto'],
    'nt': ['-ff', 'martini3001', '-nt'],
    'nt-m22': ['-ff', 'martini22', '-nt', '-elastic'],
}
ROTATIONS = [((1, 2, 3), (1, 1, 1)), ((2, 1, 3), (-1, 1, 1)), ((3, 1, 2), (1, 1, 1)), ((1, 3, 2), (1, -1, 1)), ((2, 3, 1), (1, 1, 1)),
             ((1, 2, 3), (-1, -1, 1))]


def parse_atoms(text):
    lines = text.splitlines()
    return lines


def transform(text, kind, rng):
    """Return (new text, motion)."""
    lines = text.splitlines()
    motion = {'perm': [1, 2, 3], 'sg': [1, 1, 1], 'sh': [0, 0, 0]}
    atom_idx = [i for i, l in enumerate(lines) if l.startswith(('ATOM', 'HETATM'))]
    if kind == 'permute':
        # reorder the atoms inside every residue
        groups, cur, key = [], [], None
        for i in atom_idx:
            k = lines[i][17:27]
            if k != key and cur:
                groups.append(cur)
                cur = []
            key = k
            cur.append(lines[i])
        groups.append(cur)
        new_atoms = []
        for g in groups:
            rng.shuffle(g)
            new_atoms += g
        out = [l for i, l in enumerate(lines) if i < atom_idx[0]] + new_atoms + [l for i, l in enumerate(lines) if i > atom_idx[-1]]
        return '\n'.join(l for l in out if not l.startswith('CONECT')) + '\n', motion
    if kind == 'renameH':
        out = list(lines)
        n = 0
        for i in atom_idx:
            l = lines[i].ljust(80)
            el = l[76:78].strip() or l[12:16].strip()[0]
            if el == 'H':
                n += 1
                name = ('H%d' % (n % 90 + 10)).ljust(3)
                out[i] = l[:12] + ' ' + name + l[16:]
        return '\n'.join(out) + '\n', motion
    if kind == 'motion':
        perm, sg = rng.choice(ROTATIONS[1:])
        sh = [rng.choice([-7000, 0, 12000, 3500]) for _ in range(3)]
        motion = {'perm': list(perm), 'sg': list(sg), 'sh': sh}
        out = list(lines)
        for i in atom_idx:
            l = lines[i].ljust(80)
            c = [int(round(float(l[30:38]) * 1000)), int(round(float(l[38:46]) * 1000)), int(round(float(l[46:54]) * 1000))]
            m = [sg[d] * c[perm[d] - 1] + sh[d] for d in range(3)]
            out[i] = l[:30] + ''.join('%8.3f' % (v / 1000.0) for v in m) + l[54:]
        return '\n'.join(l for l in out if not l.startswith('CRYST1')) + '\n', motion
    return text, motion


def snap(text):
    """Base presentation with coordinates exactly on the 0.001 A grid (they are, in a PDB file) - identity."""
    return text


def num(tok):
    try:
        v = float(tok)
    except ValueError:
        return {'k': 's', 's': tok, 'n': 0}
    if abs(v) > 2e5:
        return {'k': 's', 's': tok, 'n': 0}
    return {'k': 'n', 's': '', 'n': int(round(v * 10000))}


def abstract(root):
    out = {'ok': True, 'top': [], 'inters': [], 'coords': []}
    itps = sorted(f for f in os.listdir(root) if f.endswith('.itp'))
    for f in itps:
        recs = indep_readers.read_itp(open(os.path.join(root, f)).read())['records']
        sec = ''
        for r in recs:
            if r['k'] == 'section':
                sec = r['s']
            elif r['k'] == 'atom':
                p = r['p'] + [''] * 7
                out['top'].append({'type': p[0], 'resid': p[1], 'resname': p[2], 'name': p[3], 'cg': p[4], 'charge': p[5]})
            elif r['k'] == 'inter':
                out['inters'].append({'sec': f + ':' + sec, 'atoms': [int(a) for a in r['a']], 'params': [num(t) for t in r['p']]})
            elif r['k'] in ('ifdef', 'ifndef', 'else', 'endif'):
                out['inters'].append({'sec': f + ':' + sec + ':' + r['k'], 'atoms': [], 'params': [{'k': 's', 's': r.get('s', ''), 'n': 0}]})
    pdb = indep_readers.read_pdb(open(os.path.join(root, 'cg.pdb')).read())
    for mol in pdb['molecules']:
        for a in mol:
            out['coords'].append([int(round(float(a['x']) * 1000)), int(round(float(a['y']) * 1000)), int(round(float(a['z']) * 1000))])
    return out


def _run(args):
    text, options, hashseed, label = args
    root = tempfile.mkdtemp(prefix='c11_', dir=_SCRATCH)
    try:
        with open(os.path.join(root, 'in.pdb'), 'w') as fh:
            fh.write(text)
        cmd = [sys.executable, os.path.join(REPO, 'bin', 'martinize2'), '-f', 'in.pdb', '-x', 'cg.pdb', '-o', 'topol.top',
               '-maxwarn', '1000'] + options
        env = dict(os.environ)
        env['PYTHONPATH'] = REPO
        env['PYTHONHASHSEED'] = str(hashseed)
        p = subprocess.run(cmd, cwd=root, env=env, stdout=subprocess.PIPE, stderr=subprocess.PIPE, text=True, timeout=900)
        if p.returncode != 0 or not os.path.exists(os.path.join(root, 'cg.pdb')):
            return {'ok': False, 'top': [], 'inters': [], 'coords': [], 'stderr': p.stderr[-400:], 'label': label}
        a = abstract(root)
        a['label'] = label
        a['stderr'] = ''
        return a
    except Exception as exc:      # noqa
        return {'ok': False, 'top': [], 'inters': [], 'coords': [], 'stderr': 'harness: %r' % (exc,), 'label': label}
    finally:
        shutil.rmtree(root, ignore_errors=True)


_SCRATCH = None


def run(tier, seed, ev, vd):
    global _SCRATCH
    _SCRATCH = tlc.scratch('c11fs_')
    quick = tier == 'quick'
    ev.rule = ('pairs (base, transformed) of real martinize2 runs: inputs x option sets x {atoms permuted within residues, hydrogens '
               'renamed, lattice rotation + translation, other PYTHONHASHSEED}. Non-trivial = both runs produced a topology with '
               '>= 2 particles; distinct by (input, options, transformation, seed).')
    ev.assumptions = ['lattice rotations map the 0.001 A grid of the PDB format onto itself, so the transformed input is exact',
                      'numeric parameters are compared with a tolerance of 2 units in the 4th decimal, coordinates 0.002 A',
                      'the DSSP executable path is not exercised (no binary); -maxwarn 1000 so that warnings do not hide the output',
                      'exploration of presentations is sampling, not enumeration']
    rng = random.Random(seed)
    if quick:
        plan = [('dipro', 'default'), ('trpcage', 'elastic'), ('dipro', 'm22-scfix'), ('trpcage', 'nt'), ('betasheet', 'posres'),
                ('helix', 'nt-m22')]
    else:
        plan = [(i, o) for i in INPUTS for o in OPTION_SETS]
    jobs, meta = [], []
    for inp, opt in plan:
        base = open(INPUTS[inp]).read()
        kinds = ['permute', 'renameH', 'motion', 'hashseed', 'hashseed'] + ([] if quick else ['permute', 'motion', 'hashseed', 'permute+motion'])
        jobs.append((base, OPTION_SETS[opt], 0, '%s/%s/base' % (inp, opt)))
        base_idx = len(jobs) - 1
        for k in kinds:
            text, motion, hs = base, {'perm': [1, 2, 3], 'sg': [1, 1, 1], 'sh': [0, 0, 0]}, 0
            if k == 'hashseed':
                hs = rng.choice([1, 2, 3, 7])
            else:
                for part in k.split('+'):
                    text, m2 = transform(text, part, rng)
                    if part == 'motion':
                        motion = m2
            jobs.append((text, OPTION_SETS[opt], hs, '%s/%s/%s' % (inp, opt, k)))
            meta.append((base_idx, len(jobs) - 1, motion, inp, opt, k, hs))
    with mp.Pool(tlc.NCPU) as pool:
        results = pool.map(_run, jobs)
    events = []
    for bi, ti, motion, inp, opt, k, hs in meta:
        events.append({'one': results[bi], 'two': results[ti], 'motion': motion, 'what': [inp, opt, k, hs]})
    work = tlc.scratch('c11_')
    slim = [{'one': {k: e['one'][k] for k in ('ok', 'top', 'inters', 'coords')}, 'two': {k: e['two'][k] for k in ('ok', 'top', 'inters', 'coords')},
             'motion': e['motion']} for e in events]
    tf = tlc.write_json(work, 'trace.json', slim)
    res = tlc.run('Trace_PipelineEq', 'SPECIFICATION Spec\n', dump=True, env={'TRACE_FILE': tf}, workdir=work, workers=4, timeout=3000)
    verdicts = {st['tid']: st['verdict'] for st in res.states() if st['verdict'] != 'pending'}
    ev.add_tlc('TRACE Trace_PipelineEq', res)
    for i, e in enumerate(events, 1):
        ev.traces += 1
        ev.evaluations += 2
        v = verdicts.get(i, 'no-verdict')
        if not e['one']['ok']:
            raise tlc.MachineryError('base run failed for %s: %s' % (e['what'], e['one'].get('stderr')))
        if len(e['one']['top']) >= 2 and e['two']['ok']:
            ev.nontrivial_case(e['what'])
        if v != 'ok':
            detail = '%s: %s %s' % (e['what'], v, (e['two'].get('stderr') or '')[-200:])
            vd.violation('trace-rejected', {'what': e['what'], 'verdict': v, 'motion': e['motion'],
                                            'particles': [len(e['one']['top']), len(e['two']['top'])],
                                            'stderr_two': e['two'].get('stderr', '')}, detail)
    ev.extra['martinize2_runs'] = len(jobs)
    ev.sample({'kind': 'pair of real martinize2 runs judged by TLC', 'what': events[0]['what'], 'particles': len(events[0]['one']['top']),
               'interactions': len(events[0]['one']['inters']), 'motion': events[0]['motion']})


def replay(sc):
    print(sc)
    return 0


def selftest(seed):
    global _SCRATCH
    _SCRATCH = tlc.scratch('c11s_')
    base = open(INPUTS['dipro']).read()
    r = _run((base, OPTION_SETS['default'], 0, 'base'))
    assert r['ok'], r
    import copy
    bad = copy.deepcopy(r)
    bad['inters'][0]['params'][-1] = {'k': 'n', 's': '', 'n': 123456}
    bad2 = copy.deepcopy(r)
    bad2['coords'][0][0] += 50
    ident = {'perm': [1, 2, 3], 'sg': [1, 1, 1], 'sh': [0, 0, 0]}
    slim = [{'one': {k: a[k] for k in ('ok', 'top', 'inters', 'coords')}, 'two': {k: b[k] for k in ('ok', 'top', 'inters', 'coords')}, 'motion': ident}
            for a, b in ((r, r), (r, bad), (r, bad2))]
    work = tlc.scratch('c11t_')
    tf = tlc.write_json(work, 'trace.json', slim)
    res = tlc.run('Trace_PipelineEq', 'SPECIFICATION Spec\n', dump=True, env={'TRACE_FILE': tf}, workdir=work, workers=1)
    verdicts = {st['tid']: st['verdict'] for st in res.states() if st['verdict'] != 'pending'}
    assert verdicts[1] == 'ok' and verdicts[2] != 'ok' and verdicts[3] != 'ok', verdicts
    print('selftest C11: tampered pairs rejected:', verdicts[2], '/', verdicts[3])
    return 0
