"""C17 - per-residue annotations land on the intended residues and translate correctly.

spec/AnnotateSeq.tla    reconciliation + walk over the selected molecules, operational = declarative      (MC/TAB)
spec/HelixRewrite.tla   DSSP -> Martini: ordered pattern rewriting = maximal-run rule                      (MC/TAB)
spec/Trace_Annotate.tla TLC judges recorded runs of the real functions on larger random inputs             (TRACE)

spec/AnnotateRuns.tla   the same translation over strings built from segments (runs of every length at the start / middle /
                        end, adjacent segments of different helix letters), three more laws                (MC/TAB)
spec/DsspFormat.tla, DsspFile.tla, DsspLines.tla, DsspRoute.tla   the DSSP route (see harness/c17_dssp.py)      (MC/TAB/TRACE)

spec -> code: every state of the models is an (input, expected) pair replayed into the real
AnnotateResidues.run_system (real selectors, shuffled node keys, 1-2 atoms per residue, residue identities that restart,
decrease, wrap 9999 -> 0, carry insertion codes or list chain B before chain A: the residue order is the order of the
lowest node key, never the sorted identity), the real convert_dssp_to_martini / AnnotateMartiniSecondaryStructures, the real
read_dssp2, and the real AnnotateDSSP driven by a scripted DSSP executable.
code -> spec: random larger inputs of every family and runs of the real command line (`martinize2 -ss/-collagen/-dssp <exe>` on
protein / ligand / protein systems in every order) are recorded and judged by TLC (Trace_Annotate)."""
import multiprocessing as mp
import random

from . import common, tlc
from . import c17_dssp as X

PID = 'C17'
SEQ_CFG = ("SPECIFICATION Spec\nINVARIANT OpIsDecl\nINVARIANT UnselectedUntouched\nINVARIANT EveryElementLands\n"
           "INVARIANT MismatchIsError\n")
SEG_CFG = ("SPECIFICATION SpecSeg\nINVARIANT RewriteIsRuns\nINVARIANT LengthPreserved\nINVARIANT NonHelixByTable\n"
           "INVARIANT HelixNeverPlainForShort\nINVARIANT HelixLettersAreOneClass\nINVARIANT LongRunCaps\nINVARIANT ShortRunAmbivalent\n")
HEL_CFG = ("SPECIFICATION Spec\nINVARIANT RewriteIsRuns\nINVARIANT LengthPreserved\nINVARIANT NonHelixByTable\n"
           "INVARIANT HelixNeverPlainForShort\n")
FULL_ALPHABET = ['H', 'G', 'I', 'E', 'B', 'T', 'S', 'C', '1', '2', '3']


def build_system(spec_system, rng, use_protein_selector):
    """Real System for a model system [{'sel':bool,'nres':int}]; residues of 1-2 atoms; node keys shuffled.
    Returns (system, some selected molecule has residue identities that do not sort in residue order)."""
    import vermouth
    from vermouth.system import System
    from vermouth.molecule import Molecule
    system = System()
    nonsorting = False
    for mi, m in enumerate(spec_system):
        mol = Molecule()
        mol.meta['verif_selected'] = bool(m['sel'])
        natoms = [rng.randint(1, 2) for _ in range(m['nres'])]
        # residue order in vermouth is the order of the lowest node key of each residue (partition_graph): residue r
        # gets the r-th block of an increasing key list; the INSERTION order of the atoms is shuffled independently, and the
        # residue IDENTITIES (chain, resid, insertion code, resname) restart / decrease / wrap / carry insertion codes
        keys = sorted(rng.sample(range(0, 40), sum(natoms))) if rng.random() < 0.7 else list(range(sum(natoms)))
        nameless = None
        if use_protein_selector:
            names = list(X.PROTEIN_NAMES) if m['sel'] else ['LIG', 'XYZ']
            if not m['sel'] and m['nres'] >= 1 and rng.random() < 0.4:
                # not a protein either: protein residue names, but some / all of the atoms carry NO residue name
                names = list(X.PROTEIN_NAMES)
                nameless = rng.choice(['some', 'all'])
        else:
            names = ['ALA', 'LIG', 'XYZ', 'GLY']
        rng.shuffle(names)
        idents = X.identities(m['nres'], rng.choice(X.SCHEMES), names, rng)
        nonsorting = nonsorting or (m['sel'] and not X.sorts_in_order(idents))
        atoms = []
        k = 0
        for r, (na, ident) in enumerate(zip(natoms, idents), 1):
            for a in range(na):
                atoms.append((keys[k], dict(chain=ident[0], resid=ident[1], insertion_code=ident[2], resname=ident[3],
                                            atomname='A%d' % a, residx=r)))
                k += 1
        rng.shuffle(atoms)
        if nameless:
            for _key, attrs in (atoms if nameless == 'all' else atoms[:rng.randint(1, len(atoms))]):
                del attrs['resname']
            STATS['nameless'] = STATS.get('nameless', 0) + 1
        for key, attrs in atoms:
            mol.add_node(key, **attrs)
        system.add_molecule(mol)
    return system, nonsorting


STATS = {'nonsorting': 0}         # per process; summed over the pool workers through the chunk results


def run_annotate(spec_system, n, rng):
    from vermouth.dssp.dssp import AnnotateResidues
    from vermouth import selectors
    use_protein = rng.random() < 0.5
    system, nonsorting = build_system(spec_system, rng, use_protein)
    STATS['nonsorting'] += nonsorting
    selector = selectors.is_protein if use_protein else (lambda mol: mol.meta['verif_selected'])
    seq = list(range(1, n + 1))
    if rng.random() < 0.3:
        seq = tuple(seq)
    err = False
    try:
        AnnotateResidues('verif_attr', seq, molecule_selector=selector).run_system(system)
    except ValueError:
        err = True
    ann = []
    for mol, m in zip(system.molecules, spec_system):
        per_res = {}
        consistent = True
        for key, d in mol.nodes(data=True):
            v = d.get('verif_attr', 0)
            if d['residx'] in per_res and per_res[d['residx']] != v:
                consistent = False
            per_res.setdefault(d['residx'], v)
        ann.append([per_res[r] if consistent else -7 for r in range(1, m['nres'] + 1)])
    return err, ann


def real_convert(chars, rng):
    from vermouth.dssp import dssp
    if rng.random() < 0.5 or not chars:
        s = ''.join(chars)
        return list(dssp.convert_dssp_to_martini(s))
    # through the molecule-level processor
    from vermouth.molecule import Molecule
    mol = Molecule()
    atoms = []
    k = 0
    for r, c in enumerate(chars, 1):
        for a in range(rng.randint(1, 2)):
            atoms.append((k, dict(resid=r, resname='ALA', chain='A', atomname='A%d' % a, aasecstruct=c)))
            k += 1
    rng.shuffle(atoms)
    for key, attrs in atoms:
        mol.add_node(key, **attrs)
    dssp.AnnotateMartiniSecondaryStructures().run_molecule(mol)
    out = {}
    for key, d in mol.nodes(data=True):
        out.setdefault(d['resid'], d.get('cgsecstruct'))
    return [out[r] for r in range(1, len(chars) + 1)]


def _seq_chunk(args):
    states, seed = args
    rng = random.Random(seed)
    bad, n = [], 0
    STATS['nonsorting'] = 0
    for st in states:
        if st['n'] < 0:
            continue
        spec_system = [dict(m) for m in st['system']]
        err, ann = run_annotate(spec_system, st['n'], rng)
        n += 1
        exp = st['out']
        if exp['err'] != err or (not err and [list(x) for x in exp['val']] != ann) or \
                (err and any(v != 0 for a in ann for v in a)):
            bad.append({'kind': 'seq', 'system': spec_system, 'n': st['n'], 'expected': common.jsonable(exp),
                        'got_err': err, 'got_ann': ann})
    return n, bad, STATS['nonsorting']


def _hel_chunk(args):
    states, seed = args
    rng = random.Random(seed)
    bad, n = [], 0
    for st in states:
        got = real_convert(list(st['str']), rng)
        n += 1
        if got != list(st['out']):
            bad.append({'kind': 'helix', 'in': ''.join(st['str']), 'expected': ''.join(st['out']), 'got': ''.join(map(str, got))})
    return n, bad


def _trace_chunk(args):
    n, seed = args
    rng = random.Random(seed)
    out = []
    for i in range(n):
        if i % 2 == 0:
            spec_system = [{'sel': rng.random() < 0.6, 'nres': rng.randint(1, 6)} for _ in range(rng.randint(0, 7))]
            total = sum(m['nres'] for m in spec_system if m['sel'])
            lens = [m['nres'] for m in spec_system if m['sel']]
            nn = rng.choice([total, total, 1, lens[0] if lens else 0, total + 1, max(0, total - 1), rng.randint(0, 12)])
            STATS['nonsorting'] = 0
            err, ann = run_annotate(spec_system, nn, rng)
            out.append({'kind': 'seq', 'system': spec_system, 'n': nn, 'err': err, 'ann': ann, 'nonsorting': bool(STATS['nonsorting'])})
        else:
            L = rng.randint(0, 45)
            s = []
            while len(s) < L:
                if rng.random() < 0.5:
                    s += [rng.choice('HGI123')] * rng.randint(1, 12)
                else:
                    s += [rng.choice('EBTSC')] * rng.randint(1, 3)
            s = s[:L]
            got = real_convert(s, rng)
            out.append({'kind': 'helix', 'in': s, 'out': [str(c) for c in got]})
    return out


class _Res:
    pass


def _tlc_task(model):
    """One TLC model in a pool worker (all at once, 2-4 TLC workers each): summary + dumped states, scratch removed here."""
    import shutil
    name, module, cfg, consts = model
    work = tlc.scratch('c17m_')
    try:
        r = tlc.run(module, cfg, consts=consts, dump=True, timeout=3000, workdir=work, workers=2 if model[1] != 'AnnotateRuns' else 4)
        out = _Res()
        for k in ('distinct', 'generated', 'depth', 'wall', 'coverage', 'violated'):
            setattr(out, k, getattr(r, k))
        out.rows = [] if r.violated else list(r.states())
        return out
    finally:
        shutil.rmtree(work, ignore_errors=True)


VACUOUS = []


def _need(cond, what):
    """Vacuity guard: a family that did not exercise what it exists for is a machinery failure, never a pass.  The guards
    count what the generators PLANNED (never what the implementation answered) and are raised at the end of the run, and
    only if nothing was rejected: a violation is never turned into exit 2."""
    if not cond:
        VACUOUS.append(what)


def run(tier, seed, ev, vd):
    ev.rule = ('TAB: every system of <=N molecules x selected flags x 1..3 residues x every sequence length; every DSSP string up '
               'to the bound and every segment string; every DSSP file of <= k lines over the line pool; every system x DSSP answer '
               'shape. TRACE: random larger systems / strings / files / DSSP runs and command-line runs. Non-trivial = system with '
               'a selected and an unselected molecule or with repetition; string with a helical run of length >= 2; DSSP file '
               'with a table line and >= 1 residue or a malformed line after it; DSSP run with a non-protein or position-less '
               'molecule next to a protein, or with an unusable answer; command-line run with a ligand between/before proteins. '
               'Distinct by input.')
    ev.assumptions = ['TLC evaluates the operators correctly', 'residues are identified by (chain, resid, resname, insertion code) '
                      'as in the implementation and ordered by their lowest node key; sequence elements are distinct integers so '
                      'that positions are observable',
                      'no DSSP binary in the sandbox: the executable is a script whose answers the driver plans; what a real DSSP '
                      'computes is not checked, only that its output is read and placed as documented',
                      'not generated (unspecified): an empty DSSP output iterable, a DSSP file whose FIRST line is the table line, '
                      'a one-residue DSSP answer for a longer molecule, -ss letters outside the documented alphabet (incl. P)',
                      'the ITP header line "The following sequence of secondary structure was used" is judged only when '
                      'martinize2 writes it (counted in ss_header_absent / ss_header_present); on this tree it never does '
                      '(gmx_system_header reads "secstruct", the annotators write "aasecstruct")',
                      'which version strings make run_dssp warn is not judged (outside the statement); runs with a supported, '
                      'an unsupported and a decorated version string must all annotate alike']
    quick = tier == 'quick'
    del VACUOUS[:]
    import time
    t0 = time.time()
    timing = ev.extra.setdefault('timing_s', {})
    # the table of concrete DSSP lines first: the command-line plan needs it, and those runs take longest
    table, rl = X.line_table()
    ev.add_tlc('TAB DsspLines', rl)
    cli_cases = X.cli_plan(tier, seed, table)
    cli_pool = mp.Pool(tlc.NCPU, maxtasksperchild=1)        # the command-line runs start first and run next to everything else
    cli_async = cli_pool.map_async(X.cli_case, cli_cases, chunksize=1)
    pool_kinds = X.POOL_QUICK if quick else X.POOL_QUICK + X.POOL_MORE
    row_kinds = X.ROW_POOL if not quick else [k for k in X.ROW_POOL if k not in ('rS', 'rh', 'near1', 'r_17')]
    models = [
        ('TAB AnnotateSeq', 'AnnotateSeq', SEQ_CFG, {'MaxMols': '3' if quick else '4', 'MaxRes': '3', 'MaxSeqExtra': '1'}),
        ('TAB HelixRewrite {H,C}', 'HelixRewrite', HEL_CFG, {'Alphabet': '{"H","C"}', 'MaxLen': '11' if quick else '14'}),
        ('TAB HelixRewrite full alphabet', 'HelixRewrite', HEL_CFG,
         {'Alphabet': tlc.tlaval.to_tla(set(FULL_ALPHABET if not quick else ['H', 'G', 'E', 'T', 'C', '1'])), 'MaxLen': '4' if quick else '5'}),
        # segment strings: runs of every length at the ends / in the middle, adjacent segments of different helix letters
        ('TAB AnnotateRuns ' + ('two' if quick else 'three') + ' segments, full alphabet', 'AnnotateRuns', SEG_CFG,
         {'Alphabet': tlc.tlaval.to_tla(set(FULL_ALPHABET)), 'MaxLen': '0', 'SegLens': '1..9' if quick else '{1,3,4,5,7,8,9}',
          'MaxSegs': '2' if quick else '3'}),
        ('TAB AnnotateRuns ' + ('four segments {H,G,C}' if quick else 'four segments {H,I,C}'), 'AnnotateRuns', SEG_CFG,
         {'Alphabet': '{"H","G","C"}' if quick else '{"H","I","C"}', 'MaxLen': '0',
          'SegLens': '{1,4,5,8}' if quick else '{1,2,4,5,7,8,11}', 'MaxSegs': '4'}),
        ('TAB DsspFile free product', 'DsspFile', X.FILE_CFG,
         {'Pool': tlc.tlaval.to_tla(set(pool_kinds)), 'Prefixes': '{<<>>}', 'MaxLines': '4' if quick else '5'}),
        ('TAB DsspFile rows after a table line', 'DsspFile', X.FILE_CFG,
         {'Pool': tlc.tlaval.to_tla(set(row_kinds)), 'Prefixes': '{<<"hdr","table">>, <<"hdr","near2","hist","table">>}' if quick else
          '{<<"hdr","table">>, <<"hdr","near2","hist","table">>, <<"near4","tot","table">>}',
          'MaxLines': '3' if quick else '4'}),
        ('TAB DsspRoute', 'DsspRoute', X.ROUTE_CFG,
         {'MaxMols': '3', 'MaxRes': '2' if quick else '3', 'Shapes': tlc.tlaval.to_tla(set(X.SHAPES_QUICK if quick else X.SHAPES))}),
    ]
    with mp.Pool(len(models)) as pool:
        done = pool.map(_tlc_task, models, chunksize=1)
    got = {}
    for (name, module, _, _), res in zip(models, done):
        if res.violated:
            raise tlc.MachineryError('%s violates %s' % (module, res.violated))
        ev.add_tlc(name, res)
        got[name] = res.rows
    s1 = got[models[0][0]]
    s2, s3 = got[models[1][0]], got[models[2][0]]
    s4 = got[models[3][0]] + got[models[4][0]]
    s5 = got[models[5][0]] + got[models[6][0]]
    s6 = [st for st in got[models[7][0]] if st['out'].get('unspecified') is False]
    ev.exhaustive = True
    timing['tlc_models'] = round(time.time() - t0, 1)

    with mp.Pool(tlc.NCPU) as pool:
        o1 = pool.map(_seq_chunk, [(c, seed * 31 + i) for i, c in enumerate(common.chunks(s1, tlc.NCPU * 2))])
        o2 = pool.map(_hel_chunk, [(c, seed * 37 + i) for i, c in enumerate(common.chunks(s2 + s3 + s4, tlc.NCPU * 2))])
        o5 = pool.map(X._file_chunk, [(c, table) for c in common.chunks(s5, tlc.NCPU * 2)])
        o6 = pool.map(X._route_chunk, [(c, table, seed * 41 + i, 80 if quick else 25)
                                       for i, c in enumerate(common.chunks(s6, tlc.NCPU * 4))])
    timing['replays'] = round(time.time() - t0, 1)
    nonsorting = 0
    for n, bad, ns in o1:
        nonsorting += ns
        o2.append((n, bad))
    for n, bad in o2:
        ev.traces += n
        ev.evaluations += n
        for b in bad:
            vd.violation('replay-mismatch', b, 'expected %s got %s' % (b.get('expected'), b.get('got', (b.get('got_err'), b.get('got_ann')))))
    _need(nonsorting >= 100, 'AnnotateSeq replay built %d systems whose residue identities do not sort' % nonsorting)
    files_judged = files_skipped = 0
    for n, skipped, bad in o5:
        ev.traces += n
        ev.evaluations += n
        files_judged += n
        files_skipped += skipped
        for b in bad:
            vd.violation('replay-mismatch', b, 'read_dssp2: expected %s got err=%s %s' % (b['expected'], b['got_err'], b['got']))
    rstats = {}
    for n, bad, stats in o6:
        ev.traces += n
        ev.evaluations += n
        for k, v in stats.items():
            rstats[k] = rstats.get(k, 0) + v
        for b in bad:
            vd.violation('replay-mismatch', b, 'AnnotateDSSP: ' + b['why'])
    _need(rstats.get('exe', 0) >= 20 and rstats.get('err', 0) >= 100 and rstats.get('ok', 0) >= 100 and
          rstats.get('lig_first', 0) >= 50 and rstats.get('nopos', 0) >= 50, 'DsspRoute replay classes %r' % (rstats,))
    for st in s1:
        if st['n'] >= 0:
            sels = {m['sel'] for m in st['system']}
            if len(sels) == 2 or (len(st['system']) >= 2 and st['n'] in (1, st['system'][0]['nres'])):
                ev.nontrivial_case(['seq', st['system'], st['n']])
    for st in s2 + s3 + s4:
        s = ''.join(st['str'])
        if any(a + b in s for a in 'HGI123' for b in 'HGI123'):
            ev.nontrivial_case(['helix', s])
    nfile_ok = 0
    for st in s5:
        ks = list(st['kinds'])
        if 'table' in ks[1:] and not st['out'].get('unspecified') and len(ks) > ks.index('table', 1) + 1:
            ev.nontrivial_case(['file', ks])
            nfile_ok += (not st['out']['err']) and len(st['out']['val']) >= 1
    _need(nfile_ok >= 200, 'DsspFile: only %d well-formed files with residues' % nfile_ok)
    for st in s6:
        if st['out']['exp']['errAt'] or any(not X_is_caller(m) for m in st['mols']):
            ev.nontrivial_case(['dssp', st['mols'], st['shapes']])
    ev.sample({'kind': 'AnnotateSeq state replayed', 'state': next(s for s in s1 if s['n'] > 2 and len(s['system']) >= 2)})
    ev.sample({'kind': 'HelixRewrite state replayed', 'in': ''.join(s2[-1]['str']), 'expected': ''.join(s2[-1]['out'])})
    ev.sample({'kind': 'DsspRoute state replayed into AnnotateDSSP with the scripted executable', 'state': s6[len(s6) // 2]}, limit=5)
    ev.extra['families'] = {'annotate_seq_nonsorting_identities': nonsorting, 'dssp_files_replayed': files_judged,
                            'dssp_files_unspecified_skipped': files_skipped, 'dssp_route_rows': rstats}

    ntr = 1600 if quick else 30000
    nfile = 160 if quick else 3000
    ndssp = 320 if quick else 6000
    with mp.Pool(tlc.NCPU) as pool:
        parts = pool.map(_trace_chunk, [(ntr // tlc.NCPU, seed * 7877 + i) for i in range(tlc.NCPU)])
        parts += pool.map(X._file_events, [(nfile // tlc.NCPU, seed * 7879 + i, table) for i in range(tlc.NCPU)])
        parts += pool.map(X._dssp_events, [(ndssp // tlc.NCPU, seed * 7883 + i, table) for i in range(tlc.NCPU)])
    batch = [e for p in parts for e in p]
    timing['recorded_runs'] = round(time.time() - t0, 1)
    cli_events = cli_async.get(timeout=3000)
    timing['command_line_runs_done'] = round(time.time() - t0, 1)
    cli_pool.close()
    cli_pool.join()
    inconclusive = [e for e in cli_events if e['kind'] == 'inconclusive']
    batch += [e for e in cli_events if e['kind'] != 'inconclusive']
    fam = ev.extra['families']
    fam['cli_runs'] = len(cli_events)
    fam['cli_inconclusive'] = [{'argv': e['argv'], 'why': e['why'][:200]} for e in inconclusive][:10]
    conclusive = [e for e in cli_events if e['kind'] != 'inconclusive']
    fam['cli_ss'] = sum(1 for e in conclusive if e['kind'] == 'cli' and e['mode'] == 'ss')
    fam['cli_mdtraj'] = sum(1 for e in conclusive if e.get('route') == 'mdtraj')
    fam['cli_collagen'] = sum(1 for e in conclusive if e['kind'] == 'cli' and e['mode'] == 'collagen')
    fam['cli_dssp'] = sum(1 for e in conclusive if e['kind'] == 'dssp')
    fam['cli_errors_expected'] = sum(1 for e in conclusive if e['planned'] == 'defect')
    fam['cli_nonsorting'] = sum(1 for e in conclusive if e.get('nonsorting'))
    fam['ss_header_present'] = sum(1 for e in conclusive if e.get('wrote') and e['hdr'] != ['-'])
    fam['ss_header_absent'] = sum(1 for e in conclusive if e.get('wrote') and e['hdr'] == ['-'])
    fam['dssp_saved_outputs_compared'] = sum(1 for e in conclusive if e['kind'] == 'dssp' and e['saved'])
    _need(len(inconclusive) * 4 <= len(cli_events) and fam['cli_ss'] >= 6 and fam['cli_collagen'] >= 2 and fam['cli_dssp'] >= 4
          and fam['cli_errors_expected'] >= 3 and fam['cli_nonsorting'] >= 5,
          'command-line family: %r' % ({k: v for k, v in fam.items() if k.startswith('cli')},))
    judge_batch(batch, ev, vd)
    timing['judged'] = round(time.time() - t0, 1)
    kinds = {}
    for e in batch:
        key = e['kind'] + ('/defect' if e.get('planned') == 'defect' or (e['kind'] == 'seq' and e['err']) else '')
        kinds[key] = kinds.get(key, 0) + 1
    fam['judged_events'] = kinds
    fam['dssp_events_nonsorting'] = sum(1 for e in batch if e['kind'] == 'dssp' and e.get('nonsorting'))
    fam['seq_events_nonsorting'] = sum(1 for e in batch if e['kind'] == 'seq' and e.get('nonsorting'))
    _need(kinds.get('file', 0) >= 20 and kinds.get('file/defect', 0) >= 10 and kinds.get('dssp', 0) >= 50 and kinds.get('dssp/defect', 0) >= 20
          and fam['dssp_events_nonsorting'] >= 30 and fam['seq_events_nonsorting'] >= 100, 'judged families %r' % (fam,))
    if VACUOUS and not vd.violations and not vd.reported_known:
        raise tlc.MachineryError('vacuous: ' + '; '.join(VACUOUS))


def X_is_caller(m):
    return m['protein'] and m['haspos']


HARNESS_ONLY = ('nonsorting', 'how', 'errtype', 'argv', 'chains', 'rc', 'exc', 'wrote', 'planned', 'extra', 'seed', 'version', 'route')     # never shown to TLC


def judge_batch(batch, ev, vd):
    shards = common.chunks(batch, 4 if len(batch) < 2500 else tlc.NCPU)
    with mp.Pool(len(shards)) as pool:
        res = pool.map(_judge, shards)
    for shard, (dist, gen, verdicts) in zip(shards, res):
        ev.states += dist
        ev.transitions += gen
        for i, e in enumerate(shard, 1):
            ev.traces += 1
            ev.evaluations += 1
            v = verdicts.get(i, 'no-verdict')
            if v in ('unspecified-input-generated', 'no-verdict'):
                raise tlc.MachineryError('judge returned %s for %r' % (v, {k: e[k] for k in e if k not in ('plan', 'saved', 'lines')}))
            if v != 'ok':
                vd.violation('trace-rejected', slim(e), v)
            if e['kind'] == 'seq' and len({m['sel'] for m in e['system']}) == 2:
                ev.nontrivial_case(['seq', e['system'], e['n']])
            elif e['kind'] == 'helix' and len(e['in']) >= 2:
                ev.nontrivial_case(['helix', ''.join(e['in'])])
            elif e['kind'] == 'file' and len(e['lines']) >= 3:
                ev.nontrivial_case(['file', [''.join(l) for l in e['lines']]])
            elif e['kind'] == 'dssp' and (e['err'] or any(not X_is_caller(m) for m in e['mols'])):
                ev.nontrivial_case(['dssp', e['mols'], [[''.join(l) for l in c['lines']] for c in e['plan']]])
            elif e['kind'] == 'cli' and len({m['sel'] for m in e['system']}) == 2:
                ev.nontrivial_case(['cli', e['mode'], e['system'], ''.join(e['seq'])])
    ev.tlc_runs.append({'run': 'TRACE Trace_Annotate', 'events': len(batch)})
    for kind in ('seq', 'dssp', 'cli'):
        for e in batch:
            if e['kind'] == kind and (kind == 'seq' or e.get('how') in ('cli', None)):
                ev.sample({'kind': 'recorded run judged by TLC', 'event': slim(e)}, limit=6)
                break


def slim(e):
    """Events as stored in replays / samples: DSSP texts as strings again."""
    e = dict(e)
    if 'plan' in e:
        e['plan'] = [{'status': c['status'], 'text': '\n'.join(''.join(l) for l in c['lines'])} for c in e['plan']]
    if 'saved' in e:
        e['saved'] = ['\n'.join(''.join(l) for l in t) for t in e['saved']]
    if e.get('kind') == 'file':
        e['lines'] = [''.join(l) for l in e['lines']]
    return e


def _judge(shard):
    work = tlc.scratch('c17_')
    try:
        tf = tlc.write_json(work, 'trace.json', [{k: v for k, v in e.items() if k not in HARNESS_ONLY} for e in shard])
        res = tlc.run('Trace_Annotate', 'SPECIFICATION Spec\n', dump=True, env={'TRACE_FILE': tf}, workdir=work, workers=2, timeout=1800)
        verdicts = {st['tid']: st['verdict'] for st in res.states() if st['verdict'] != 'pending'}
        return res.distinct, res.generated, verdicts
    finally:
        import shutil
        shutil.rmtree(work, ignore_errors=True)


def replay(sc):
    rng = random.Random(0)
    kind = sc.get('kind')
    if kind == 'seq':
        print('real AnnotateResidues ->', run_annotate(sc['system'], sc['n'], rng), 'expected', sc.get('expected'))
    elif kind == 'helix':
        s = sc['in'] if isinstance(sc['in'], str) else ''.join(sc['in'])
        from vermouth.dssp import dssp
        print('real convert_dssp_to_martini(%r) -> %r expected %r' % (s, dssp.convert_dssp_to_martini(s), sc.get('expected')))
    elif kind == 'file':
        from vermouth.dssp import dssp
        try:
            print('real read_dssp2 ->', dssp.read_dssp2(list(sc['lines'])))
        except IOError as exc:
            print('real read_dssp2 raised IOError:', exc)
        print('expected', sc.get('expected'))
    elif kind in ('dssp-row', 'dssp') and sc.get('how') != 'cli':
        calls = sc.get('calls') or sc['plan']
        mols = [{k: m[k] for k in ('protein', 'haspos', 'nres')} for m in sc['mols']]
        e = X.run_library(mols, calls, rng, 'exe')
        print('real AnnotateDSSP with the scripted executable ->', {k: e[k] for k in ('err', 'errtype', 'aa', 'cg', 'ncalls', 'seen')})
        print('expected', sc.get('expected'), sc.get('why', ''))
    else:
        case = {'chains': sc['chains'], 'seed': sc.get('seed', 0), 'mode': sc.get('route', sc.get('mode', 'dssp')), 'ss': ''.join(sc.get('seq', [])),
                'extra': sc.get('extra', []), 'version': sc.get('version', X.VERSIONS[0])}
        if kind == 'dssp':
            case['calls'] = sc['plan']
        print('command: martinize2', sc.get('argv'))
        e = X.cli_case(case)
        print({k: v for k, v in e.items() if k not in ('plan', 'saved')})
    return 0


def selftest(seed):
    import copy
    import os
    table, _ = X.line_table()
    batch = _trace_chunk((12, seed))
    batch[2]['ann'] = [[v + 1 for v in a] for a in batch[2]['ann']]
    batch[3]['out'] = ['C'] + batch[3]['out'][1:] if batch[3]['out'] and batch[3]['out'][0] != 'C' else batch[3]['out'] + ['C']
    expected = 2
    rng = random.Random(seed)
    # --- read_dssp2 events: a class changed, a residue dropped, an error swallowed
    files = [e for e in X._file_events((40, seed, table)) ]
    good = [e for e in files if not e['err'] and len(e['out']) >= 3]
    bad = [e for e in files if e['err']]
    f1 = copy.deepcopy(good[0]); f1['out'][1] = 'H' if f1['out'][1] != 'H' else 'E'
    f2 = copy.deepcopy(good[1]); f2['out'] = f2['out'][:-1]
    f3 = copy.deepcopy(bad[0]); f3['err'] = False; f3['out'] = ['C']
    f4 = copy.deepcopy(good[2]); f4['err'] = True; f4['out'] = []
    batch += [good[3], f1, f2, f3, f4]
    expected += 4
    # --- AnnotateDSSP events
    mols = [{'protein': False, 'haspos': True, 'nres': 2}, {'protein': True, 'haspos': True, 'nres': 9},
            {'protein': True, 'haspos': False, 'nres': 3}, {'protein': True, 'haspos': True, 'nres': 6}]
    calls = [X.random_answer(rng, table, 9, 'breaks'), X.random_answer(rng, table, 6, 'exact')]
    d0 = X.run_library(mols, calls, rng, 'exe')
    assert not d0['err'] and d0['ncalls'] == 2, d0
    d1 = copy.deepcopy(d0); d1['aa'][1] = d1['aa'][1][1:] + d1['aa'][1][:1]                   # classes shifted by one residue
    d2 = copy.deepcopy(d0); d2['aa'][0] = ['C', 'C']                                         # ligand annotated
    d3 = copy.deepcopy(d0); d3['cg'][3] = d3['aa'][3]                                        # translation not applied
    d4 = copy.deepcopy(d0); d4['aa'][1], d4['aa'][3] = d4['aa'][1][:6] + d4['aa'][3][:3], d4['aa'][3]   # wrong molecule's classes
    d4['aa'][1] = (d0['aa'][3] + d0['aa'][3])[:9]
    d5 = copy.deepcopy(d0); d5['seen'][0]['nres'] -= 1                                       # DSSP was given another molecule
    calls_bad = [X.random_answer(rng, table, 9, 'shortbrk'), X.random_answer(rng, table, 6, 'exact')]
    e0 = X.run_library(mols, calls_bad, rng, 'shim')
    assert e0['err'], e0
    e1 = copy.deepcopy(e0); e1['err'] = False                                                # unusable answer not rejected
    e2 = copy.deepcopy(e0); e2['aa'][1] = ['C'] * 9                                          # ... and a shifted assignment left behind
    batch += [d0, d1, d2, d3, d4, d5, e0, e1, e2]
    expected += 7
    # --- one command-line run of each route, then tampered
    cases = [c for c in X.cli_plan('quick', seed, table)]
    pick = [next(c for c in cases if c['mode'] == 'ss' and len(c['ss']) > 5), next(c for c in cases if c['mode'] == 'collagen'),
            next(c for c in cases if c['mode'] == 'dssp')]
    with mp.Pool(3, maxtasksperchild=1) as pool:
        c_ss, c_col, c_dssp = pool.map(X.cli_case, pick, chunksize=1)
    assert c_ss['kind'] == 'cli' and c_col['kind'] == 'cli' and c_dssp['kind'] == 'dssp', (c_ss, c_col, c_dssp)
    prot = next(i for i, m in enumerate(c_ss['system']) if m['sel'] and m['nres'] > 2)
    t1 = copy.deepcopy(c_ss); t1['beads'][prot] = t1['beads'][prot][::-1] if t1['beads'][prot] != t1['beads'][prot][::-1] else ['C'] * len(t1['beads'][prot])
    t2 = copy.deepcopy(c_ss); lig = next(i for i, m in enumerate(t2['system']) if not m['sel']); t2['aa'][lig] = ['C']
    t3 = copy.deepcopy(c_ss); t3['hdr'] = ['C'] * 3                                          # a header that is not the sequence
    t4 = copy.deepcopy(c_col); p2 = next(i for i, m in enumerate(t4['system']) if m['sel']); t4['cg'][p2] = ['C'] * len(t4['cg'][p2])
    t5 = copy.deepcopy(c_dssp); p3 = next(i for i, m in enumerate(t5['mols']) if m['protein'] and m['nres'] > 2)
    t5['beads'][p3] = t5['beads'][p3][1:] + t5['beads'][p3][:1]
    if t5['beads'][p3] == c_dssp['beads'][p3]:
        t5['beads'][p3] = ['F'] * len(t5['beads'][p3])
    t6 = copy.deepcopy(c_dssp)
    if t6['saved']:
        t6['saved'][0] = t6['saved'][0][1:]
        expected += 1
    else:
        t6 = None
    batch += [c_ss, t1, t2, t3, c_col, t4, c_dssp, t5] + ([t6] if t6 else [])
    expected += 5
    ev = common.Evidence(PID, 'quick', seed)
    vd = common.Verdicts(PID, ev)
    judge_batch(batch, ev, vd)
    print('selftest C17: corrupted events rejected:', [d for k, p, d in vd.violations])
    assert len(vd.violations) == expected, (expected, vd.violations)
    # --- replay side: a tampered expected value in a DsspRoute row and a DsspFile row must be reported
    r6 = tlc.run('DsspRoute', X.ROUTE_CFG, consts={'MaxMols': '2', 'MaxRes': '2', 'Shapes': '{"exact","long"}'}, dump=True)
    rows = [st for st in r6.states() if st['out'].get('unspecified') is False and not st['out']['exp']['errAt'] and len(st['mols']) == 2
            and any(X_is_caller(m) for m in st['mols'])][:4]
    tam = copy.deepcopy(rows)
    i = next(i for i, m in enumerate(tam[0]['mols']) if X_is_caller(m))
    tam[0]['out']['exp']['aa'] = tuple(tuple('H' if c != 'H' else 'E' for c in a) if k == i else a for k, a in enumerate(tam[0]['out']['exp']['aa']))
    n, bad, _ = X._route_chunk((rows + tam[:1], table, seed, 2))
    assert n == 5 and len(bad) == 1 and bad[0]['why'].startswith('aasecstruct'), bad
    rf = tlc.run('DsspFile', X.FILE_CFG, consts={'Pool': '{"rH","r_","brk"}', 'Prefixes': '{<<"hdr","table">>}', 'MaxLines': '2'}, dump=True)
    frows = list(rf.states())
    ftam = copy.deepcopy([st for st in frows if len(st['kinds']) == 4 and 'brk' in st['kinds']][:1])
    ftam[0]['out'] = {'err': False, 'val': ('C',) + tuple(ftam[0]['out']['val'])}             # as if the break were a residue
    n, _, bad = X._file_chunk((frows + ftam, table))
    assert len(bad) == 1, bad
    print('selftest C17: tampered table rows rejected: DsspRoute 1/1, DsspFile 1/1 (of %d + %d rows replayed)' % (5, len(frows) + 1))
    for k, p, d in vd.violations:
        os.path.exists(p) and os.remove(p)
    return 0
