"""C17 - per-residue annotations land on the intended residues and translate correctly.

spec/AnnotateSeq.tla    reconciliation + walk over the selected molecules, operational = declarative      (MC/TAB)
spec/HelixRewrite.tla   DSSP -> Martini: ordered pattern rewriting = maximal-run rule                      (MC/TAB)
spec/Trace_Annotate.tla TLC judges recorded runs of the real functions on larger random inputs             (TRACE)

spec -> code: every state of both models is an (input, expected) pair replayed into the real
AnnotateResidues.run_system (real selectors, shuffled node keys, 1-2 atoms per residue) and the real
convert_dssp_to_martini / AnnotateMartiniSecondaryStructures."""
import multiprocessing as mp
import random

from . import common, tlc

PID = 'C17'
SEQ_CFG = ("SPECIFICATION Spec\nINVARIANT OpIsDecl\nINVARIANT UnselectedUntouched\nINVARIANT EveryElementLands\n"
           "INVARIANT MismatchIsError\n")
HEL_CFG = ("SPECIFICATION Spec\nINVARIANT RewriteIsRuns\nINVARIANT LengthPreserved\nINVARIANT NonHelixByTable\n"
           "INVARIANT HelixNeverPlainForShort\n")
FULL_ALPHABET = ['H', 'G', 'I', 'E', 'B', 'T', 'S', 'C', '1', '2', '3']


def build_system(spec_system, rng, use_protein_selector):
    """Real System for a model system [{'sel':bool,'nres':int}]; residues of 1-2 atoms; node keys shuffled."""
    import vermouth
    from vermouth.system import System
    from vermouth.molecule import Molecule
    system = System()
    for mi, m in enumerate(spec_system):
        mol = Molecule()
        mol.meta['verif_selected'] = bool(m['sel'])
        natoms = [rng.randint(1, 2) for _ in range(m['nres'])]
        # residue order in vermouth is the order of the lowest node key of each residue (partition_graph): residue r
        # gets the r-th block of an increasing key list; the INSERTION order of the atoms is shuffled independently
        keys = sorted(rng.sample(range(0, 40), sum(natoms))) if rng.random() < 0.7 else list(range(sum(natoms)))
        resname = ('ALA' if m['sel'] else 'LIG') if use_protein_selector else rng.choice(['ALA', 'LIG', 'XYZ'])
        atoms = []
        k = 0
        for r, na in enumerate(natoms, 1):
            for a in range(na):
                atoms.append((keys[k], dict(resid=r + (3 if mi % 2 else 0), resname=resname, chain='A',
                                            atomname='A%d' % a, residx=r)))
                k += 1
        rng.shuffle(atoms)
        for key, attrs in atoms:
            mol.add_node(key, **attrs)
        system.add_molecule(mol)
    return system


def run_annotate(spec_system, n, rng):
    from vermouth.dssp.dssp import AnnotateResidues
    from vermouth import selectors
    use_protein = rng.random() < 0.5
    system = build_system(spec_system, rng, use_protein)
    selector = selectors.is_protein if use_protein else (lambda mol: mol.meta['verif_selected'])
    seq = list(range(1, n + 1))
    if rng.random() < 0.3:
        seq = tuple(seq)
    err = False
    try:
        AnnotateResidues('verif_attr', seq, molecule_selector=selector).run_system(system)
    except ValueError:
        err = True
    ann = []
    for mol, m in zip(system.molecules, spec_system):
        per_res = {}
        consistent = True
        for key, d in mol.nodes(data=True):
            v = d.get('verif_attr', 0)
            if d['residx'] in per_res and per_res[d['residx']] != v:
                consistent = False
            per_res.setdefault(d['residx'], v)
        ann.append([per_res[r] if consistent else -7 for r in range(1, m['nres'] + 1)])
    return err, ann


def real_convert(chars, rng):
    from vermouth.dssp import dssp
    if rng.random() < 0.5 or not chars:
        s = ''.join(chars)
        return list(dssp.convert_dssp_to_martini(s))
    # through the molecule-level processor
    from vermouth.molecule import Molecule
    mol = Molecule()
    atoms = []
    k = 0
    for r, c in enumerate(chars, 1):
        for a in range(rng.randint(1, 2)):
            atoms.append((k, dict(resid=r, resname='ALA', chain='A', atomname='A%d' % a, aasecstruct=c)))
            k += 1
    rng.shuffle(atoms)
    for key, attrs in atoms:
        mol.add_node(key, **attrs)
    dssp.AnnotateMartiniSecondaryStructures().run_molecule(mol)
    out = {}
    for key, d in mol.nodes(data=True):
        out.setdefault(d['resid'], d.get('cgsecstruct'))
    return [out[r] for r in range(1, len(chars) + 1)]


def _seq_chunk(args):
    states, seed = args
    rng = random.Random(seed)
    bad, n = [], 0
    for st in states:
        if st['n'] < 0:
            continue
        spec_system = [dict(m) for m in st['system']]
        err, ann = run_annotate(spec_system, st['n'], rng)
        n += 1
        exp = st['out']
        if exp['err'] != err or (not err and [list(x) for x in exp['val']] != ann) or \
                (err and any(v != 0 for a in ann for v in a)):
            bad.append({'kind': 'seq', 'system': spec_system, 'n': st['n'], 'expected': common.jsonable(exp),
                        'got_err': err, 'got_ann': ann})
    return n, bad


def _hel_chunk(args):
    states, seed = args
    rng = random.Random(seed)
    bad, n = [], 0
    for st in states:
        got = real_convert(list(st['str']), rng)
        n += 1
        if got != list(st['out']):
            bad.append({'kind': 'helix', 'in': ''.join(st['str']), 'expected': ''.join(st['out']), 'got': ''.join(map(str, got))})
    return n, bad


def _trace_chunk(args):
    n, seed = args
    rng = random.Random(seed)
    out = []
    for i in range(n):
        if i % 2 == 0:
            spec_system = [{'sel': rng.random() < 0.6, 'nres': rng.randint(1, 6)} for _ in range(rng.randint(0, 7))]
            total = sum(m['nres'] for m in spec_system if m['sel'])
            lens = [m['nres'] for m in spec_system if m['sel']]
            nn = rng.choice([total, total, 1, lens[0] if lens else 0, total + 1, max(0, total - 1), rng.randint(0, 12)])
            err, ann = run_annotate(spec_system, nn, rng)
            out.append({'kind': 'seq', 'system': spec_system, 'n': nn, 'err': err, 'ann': ann})
        else:
            L = rng.randint(0, 45)
            s = []
            while len(s) < L:
                if rng.random() < 0.5:
                    s += [rng.choice('HGI123')] * rng.randint(1, 12)
                else:
                    s += [rng.choice('EBTSC')] * rng.randint(1, 3)
            s = s[:L]
            got = real_convert(s, rng)
            out.append({'kind': 'helix', 'in': s, 'out': [str(c) for c in got]})
    return out


def run(tier, seed, ev, vd):
    ev.rule = ('TAB: every system of <=N molecules x selected flags x 1..3 residues x every sequence length, and every DSSP '
               'string up to the bound; TRACE: random larger systems / strings. Non-trivial = system with a selected and an '
               'unselected molecule or with repetition, or a string with a helical run of length >= 2; distinct by input.')
    ev.assumptions = ['TLC evaluates the operators correctly', 'residues are identified by (chain, resid, resname, insertion code) '
                      'as in the implementation; sequence elements are distinct integers so that positions are observable',
                      'DSSP executable path not exercised (no binary in the sandbox)']
    quick = tier == 'quick'
    r1 = tlc.run('AnnotateSeq', SEQ_CFG, consts={'MaxMols': '3' if quick else '4', 'MaxRes': '3', 'MaxSeqExtra': '1'},
                 dump=True, timeout=1800)
    if r1.violated:
        raise tlc.MachineryError('AnnotateSeq violates ' + r1.violated)
    ev.add_tlc('TAB AnnotateSeq', r1)
    s1 = list(r1.states())
    r2 = tlc.run('HelixRewrite', HEL_CFG, consts={'Alphabet': '{"H","C"}', 'MaxLen': '11' if quick else '14'}, dump=True, timeout=1800)
    if r2.violated:
        raise tlc.MachineryError('HelixRewrite violates ' + r2.violated)
    ev.add_tlc('TAB HelixRewrite {H,C}', r2)
    s2 = list(r2.states())
    r3 = tlc.run('HelixRewrite', HEL_CFG, consts={'Alphabet': tlc.tlaval.to_tla(set(FULL_ALPHABET if not quick else
                                                                                      ['H', 'G', 'E', 'T', 'C', '1'])),
                                                  'MaxLen': '4' if quick else '5'}, dump=True, timeout=1800)
    if r3.violated:
        raise tlc.MachineryError('HelixRewrite violates ' + r3.violated)
    ev.add_tlc('TAB HelixRewrite full alphabet', r3)
    s3 = list(r3.states())
    ev.exhaustive = True
    with mp.Pool(tlc.NCPU) as pool:
        o1 = pool.map(_seq_chunk, [(c, seed * 31 + i) for i, c in enumerate(common.chunks(s1, tlc.NCPU * 2))])
        o2 = pool.map(_hel_chunk, [(c, seed * 37 + i) for i, c in enumerate(common.chunks(s2 + s3, tlc.NCPU * 2))])
    for n, bad in o1 + o2:
        ev.traces += n
        ev.evaluations += n
        for b in bad:
            vd.violation('replay-mismatch', b, 'expected %s got %s' % (b.get('expected'), b.get('got', (b.get('got_err'), b.get('got_ann')))))
    for st in s1:
        if st['n'] >= 0:
            sels = {m['sel'] for m in st['system']}
            if len(sels) == 2 or (len(st['system']) >= 2 and st['n'] in (1, st['system'][0]['nres'])):
                ev.nontrivial_case(['seq', st['system'], st['n']])
    for st in s2 + s3:
        s = ''.join(st['str'])
        if any(a + b in s for a in 'HGI123' for b in 'HGI123'):
            ev.nontrivial_case(['helix', s])
    ev.sample({'kind': 'AnnotateSeq state replayed', 'state': next(s for s in s1 if s['n'] > 2 and len(s['system']) >= 2)})
    ev.sample({'kind': 'HelixRewrite state replayed', 'in': ''.join(s2[-1]['str']), 'expected': ''.join(s2[-1]['out'])})

    ntr = 1600 if quick else 30000
    with mp.Pool(tlc.NCPU) as pool:
        parts = pool.map(_trace_chunk, [(ntr // tlc.NCPU, seed * 7877 + i) for i in range(tlc.NCPU)])
    batch = [e for p in parts for e in p]
    judge_batch(batch, ev, vd)


def judge_batch(batch, ev, vd):
    shards = common.chunks(batch, 4 if len(batch) < 4000 else tlc.NCPU)
    with mp.Pool(len(shards)) as pool:
        res = pool.map(_judge, shards)
    for shard, (dist, gen, verdicts) in zip(shards, res):
        ev.states += dist
        ev.transitions += gen
        for i, e in enumerate(shard, 1):
            ev.traces += 1
            ev.evaluations += 1
            v = verdicts.get(i, 'no-verdict')
            if v != 'ok':
                vd.violation('trace-rejected', e, v)
            if e['kind'] == 'seq' and len({m['sel'] for m in e['system']}) == 2:
                ev.nontrivial_case(['seq', e['system'], e['n']])
            elif e['kind'] == 'helix' and len(e['in']) >= 2:
                ev.nontrivial_case(['helix', ''.join(e['in'])])
    ev.tlc_runs.append({'run': 'TRACE Trace_Annotate', 'events': len(batch)})
    ev.sample({'kind': 'recorded run judged by TLC', 'event': batch[0]})


def _judge(shard):
    work = tlc.scratch('c17_')
    tf = tlc.write_json(work, 'trace.json', shard)
    res = tlc.run('Trace_Annotate', 'SPECIFICATION Spec\n', dump=True, env={'TRACE_FILE': tf}, workdir=work, workers=2, timeout=1800)
    verdicts = {st['tid']: st['verdict'] for st in res.states() if st['verdict'] != 'pending'}
    return res.distinct, res.generated, verdicts


def replay(sc):
    rng = random.Random(0)
    if sc['kind'] == 'seq':
        print('real AnnotateResidues ->', run_annotate(sc['system'], sc['n'], rng), 'expected', sc.get('expected'))
    else:
        s = sc['in'] if isinstance(sc['in'], str) else ''.join(sc['in'])
        from vermouth.dssp import dssp
        print('real convert_dssp_to_martini(%r) -> %r expected %r' % (s, dssp.convert_dssp_to_martini(s), sc.get('expected')))
    return 0


def selftest(seed):
    batch = _trace_chunk((12, seed))
    batch[2]['ann'] = [[v + 1 for v in a] for a in batch[2]['ann']]
    batch[3]['out'] = ['C'] + batch[3]['out'][1:] if batch[3]['out'] and batch[3]['out'][0] != 'C' else batch[3]['out'] + ['C']
    ev = common.Evidence(PID, 'quick', seed)
    vd = common.Verdicts(PID, ev)
    judge_batch(batch, ev, vd)
    assert len(vd.violations) == 2, vd.violations
    print('selftest C17: corrupted events rejected:', [d for k, p, d in vd.violations])
    import os
    for k, p, d in vd.violations:
        os.path.exists(p) and os.remove(p)
    return 0
