"""C14, real data: the front end of bin/martinize2 run in-process on shipped structures with the shipped charmm modifications,
and the GENERIC projection of real Molecule / Modification objects into the records of spec/PTM.tla.

Nothing here decides anything.  Python (a) edits PDB text (adds / removes atoms so that a structure carries a protonation
state, a phosphate, a neutral terminus, an atom no modification explains), (b) runs the REAL `read_system` +
`pdb_to_universal` of bin/martinize2 (MakeBonds, AnnotateMutMod, RepairGraph, CanonicalizeModifications) with
`RepairGraph.run_molecule`, `CanonicalizeModifications.run_molecule` and `identify_ptms` interposed, (c) projects the molecule
that enters CanonicalizeModifications, the force field's modifications, the groups the code formed, the placements it chose,
the molecule that comes out and the `unknown-input` warnings to JSON.  TLC (Trace_PTM!JudgeRun) judges every run with the same
declarative definition as the synthetic family.

The mapping directory is loaded before the run, as the command does: loading it writes a `modifications` attribute on the
nodes of the force field's Modification objects, which CanonicalizeModifications then copies onto atoms - part of the real
state of a martinize2 run.  Every case runs in a fresh forked child so that this state is the same for every case."""
import logging
import math
import os
import shutil

from . import common, tlc

T0 = 'vermouth/tests/data/integration_tests/tier-0'
T1 = 'vermouth/tests/data/integration_tests/tier-1'
STRUCTURES = {
    'dipro': T0 + '/dipro-termini/aa.pdb',
    'sheet': T0 + '/mini-protein1_betasheet/aa.pdb',
    'helix': T0 + '/mini-protein2_helix/aa.pdb',
    'trpcage': T0 + '/mini-protein3_trp-cage/aa.pdb',
    'hst5': T1 + '/hst5/aa.pdb',
    'villin': T1 + '/villin/aa.pdb',
    '3i40': T1 + '/3i40/3i40.pdb',
    'lysmodf': T1 + '/prot_modf_charmm/input.pdb',
}
DEFAULT = [['cter', 'C-ter'], ['nter', 'N-ter']]
NEUTRAL = [['cter', 'COOH-ter'], ['nter', 'NH2-ter']]


class Unsupported(Exception):
    """An object the generic form cannot express (listed in the evidence); never a violation."""


# ----------------------------------------------------------------------------------------------------------------------
# PDB text editing (inputs only)
class Pdb:
    """The shipped file, line by line.  Untouched lines are written back verbatim (CONECT records included); atoms that are
    added get fresh serial numbers and are listed after the atom they are bonded to."""
    def __init__(self, path):
        self.atoms, self.lines = [], []          # lines: str (verbatim) or atom dict
        first_model = True
        for ln in open(path).read().splitlines():
            if ln.startswith(('ATOM', 'HETATM')):
                if not first_model:
                    continue
                name = ln[12:16].strip()
                el = ln[76:78].strip() if len(ln) >= 78 else ''
                if not el:
                    el = name.lstrip('0123456789')[:1]
                atom = {'rec': ln[:6], 'serial': int(ln[6:11]), 'name': name, 'resname': ln[17:21].strip(), 'chain': ln[21], 'resid': int(ln[22:26]),
                        'icode': ln[26], 'xyz': [float(ln[30:38]), float(ln[38:46]), float(ln[46:54])], 'el': el.capitalize(), 'line': ln}
                self.atoms.append(atom)
                self.lines.append(atom)
            else:
                self.lines.append(ln)
            if ln.startswith('ENDMDL'):
                first_model = False                     # atoms of the first model only
        self.removed = set()

    # -- look-up
    def find(self, chain, resid, name):
        hits = [a for a in self.atoms if a['resid'] == resid and a['name'] == name and chain in ('', None, a['chain'].strip(), a['chain'])]
        if len(hits) != 1:
            raise KeyError('atom %s of residue %s%s: %d hits' % (name, chain, resid, len(hits)))
        return hits[0]

    def bonded(self, atom, cutoff=None):
        out = []
        for b in self.atoms:
            if b is atom:
                continue
            d = math.dist(atom['xyz'], b['xyz'])
            lim = cutoff or (1.25 if 'H' in (atom['el'], b['el']) else 1.95)
            if d < lim:
                out.append(b)
        return out

    def hydrogens(self, atom):
        return [b for b in self.bonded(atom) if b['el'] == 'H']

    # -- edits
    def add(self, parent, name, el, dist):
        """New atom at `dist` from `parent`, in the direction (of 300 spread over the sphere) that stays farthest from every
        other atom: MakeBonds must see the bond to `parent` and no other (its widest criterion here: 1.8 A, 1.45 A for H)."""
        best = None
        golden = math.pi * (3.0 - math.sqrt(5.0))
        for i in range(300):
            z = 1.0 - 2.0 * (i + 0.5) / 300
            r = math.sqrt(1.0 - z * z)
            v = (r * math.cos(golden * i), r * math.sin(golden * i), z)
            xyz = [parent['xyz'][j] + dist * v[j] for j in range(3)]
            clear = min(math.dist(xyz, b['xyz']) for b in self.atoms if b is not parent)
            if best is None or clear > best[0]:
                best = (clear, xyz)
        if best[0] < (1.5 if el == 'H' else 1.9):
            raise KeyError('no room for %s on %s %s%d' % (name, parent['name'], parent['resname'], parent['resid']))
        new = dict(parent, name=name, el=el, xyz=best[1], serial=max(a['serial'] for a in self.atoms) + 1, line=None)
        self.atoms.insert(self.atoms.index(parent) + 1, new)
        self.lines.insert(self.lines.index(parent) + 1, new)
        return new

    def remove(self, atom):
        self.atoms.remove(atom)
        self.lines.remove(atom)
        self.removed.add(atom['serial'])

    def touch(self, atom):
        atom['line'] = None                             # re-render

    @staticmethod
    def _render(a):
        if a.get('line'):
            return a['line']
        name = a['name'] if len(a['name']) == 4 else ' %-3s' % a['name']
        return '%-6s%5d %4s %-4s%1s%4d%1s   %8.3f%8.3f%8.3f  1.00  0.00          %2s' % (
            a['rec'].strip(), a['serial'] % 100000, name, a['resname'], a['chain'], a['resid'], a['icode'], a['xyz'][0], a['xyz'][1], a['xyz'][2], a['el'].upper())

    def write(self, path):
        with open(path, 'w') as fh:
            for ln in self.lines:
                if isinstance(ln, dict):
                    fh.write(self._render(ln) + '\n')
                elif ln.startswith('CONECT'):
                    serials = [int(ln[i:i + 5]) for i in range(6, len(ln.rstrip()), 5) if ln[i:i + 5].strip()]
                    if not serials or serials[0] in self.removed:
                        continue
                    keep = [x for x in serials[1:] if x not in self.removed]
                    if keep:
                        fh.write('CONECT' + ''.join('%5d' % x for x in [serials[0]] + keep) + '\n')
                else:
                    fh.write(ln + '\n')


def _res(spec):
    """'A:29' or '29' -> (chain, resid)."""
    if ':' in spec:
        c, r = spec.split(':')
        return c, int(r)
    return '', int(spec)


def edit(pdb, op):
    """One edit; op = [kind, residue, ...].  Raises KeyError when the structure does not have the atoms (a harness error)."""
    kind, chain, resid = op[0], *_res(op[1])
    if kind == 'protonate':               # ['protonate', res, heavy atom name, hydrogen name]: GLU OE1/OE2, ASP OD1/OD2, HIS ND1
        o = pdb.find(chain, resid, op[2])
        pdb.add(o, op[3], 'H', 0.98)
    elif kind == 'strip-h':               # ['strip-h', res, heavy atom name, how many]: LYS NZ (3 -> 2 = LYS-LSN), N terminus (3 -> 2 = NH2)
        n = pdb.find(chain, resid, op[2])
        hs = sorted(pdb.hydrogens(n), key=lambda a: a['name'])
        if len(hs) < op[3]:
            raise KeyError('%s has %d hydrogens' % (op[2], len(hs)))
        for h in hs[len(hs) - op[3]:]:
            pdb.remove(h)
    elif kind == 'phospho':               # ['phospho', res, oxygen name]: TYR OH (the hydroxyl hydrogen is removed, P O O O-H added)
        o = pdb.find(chain, resid, op[2])
        for h in pdb.hydrogens(o):
            pdb.remove(h)
        p = pdb.add(o, 'P1', 'P', 1.60)
        o2 = pdb.add(p, 'O2', 'O', 1.52)
        pdb.add(p, 'O3', 'O', 1.50)
        pdb.add(p, 'O4', 'O', 1.50)
        pdb.add(o2, 'H2', 'H', 0.97)
    elif kind == 'cooh':                  # ['cooh', res]: a hydrogen on one of the two terminal oxygens
        c = pdb.find(chain, resid, 'C')
        os_ = sorted((a for a in pdb.bonded(c) if a['el'] == 'O'), key=lambda a: a['name'])
        if len(os_) != 2:
            raise KeyError('terminal carbon with %d oxygens' % len(os_))
        pdb.add(os_[-1], 'HO', 'H', 0.98)
    elif kind == 'halogen':               # ['halogen', res, heavy atom name]: one hydrogen replaced by fluorine (no modification explains it)
        c = pdb.find(chain, resid, op[2])
        h = sorted(pdb.hydrogens(c), key=lambda a: a['name'])[0]
        d = math.dist(c['xyz'], h['xyz'])
        h['xyz'] = [c['xyz'][i] + (h['xyz'][i] - c['xyz'][i]) * 1.36 / d for i in range(3)]
        h['name'], h['el'] = 'F1', 'F'
        pdb.touch(h)
    elif kind == 'hydroxyl':              # ['hydroxyl', res, carbon name]: one hydrogen replaced by O-H (no modification explains it)
        c = pdb.find(chain, resid, op[2])
        h = sorted(pdb.hydrogens(c), key=lambda a: a['name'])[0]
        d = math.dist(c['xyz'], h['xyz'])
        h['xyz'] = [c['xyz'][i] + (h['xyz'][i] - c['xyz'][i]) * 1.43 / d for i in range(3)]
        h['name'], h['el'] = 'OX1', 'O'
        pdb.touch(h)
        pdb.add(h, 'HX1', 'H', 0.97)
    else:
        raise ValueError(kind)


# ----------------------------------------------------------------------------------------------------------------------
# generic projection: real Modification / Molecule objects -> records of spec/PTM.tla (atoms and template nodes by position)
def canon(v):
    """Canonical string of an attribute value; spec/PTM.tla builds "s:" \\o name itself for the canonical atom name."""
    if v is None:
        return 'None'
    if isinstance(v, str):
        return 's:' + v
    if isinstance(v, (bool, int, float)):
        return 'n:%r' % float(v)
    return 'o:' + repr(v)


def project_templates(modifications):
    """force_field.modifications -> (templates for TLC, {id(Modification): index}, replaced attribute keys, node order per template)."""
    templates, tindex, keys, orders = [], {}, {'atomname'}, []
    for ti, (name, mod) in enumerate(modifications.items(), 1):
        order = list(mod.nodes)
        pos = {k: i for i, k in enumerate(order, 1)}
        nodes = []
        for k in order:
            d = mod.nodes[k]
            if not isinstance(d.get('atomname'), str):
                raise Unsupported('modification %s: node %r without atom name' % (name, k))
            ptm = bool(d.get('PTM_atom', False))
            if ptm and not isinstance(d.get('element'), str):
                raise Unsupported('modification %s: added atom %r without element' % (name, k))
            rep = d.get('replace') or {}
            keys.update(str(a) for a in rep)
            nodes.append({'name': d['atomname'], 'el': str(d.get('element', '')), 'ptm': ptm,
                          'rep': [[str(a), canon(v)] for a, v in rep.items()]})
        if not any(n['ptm'] for n in nodes):
            raise Unsupported('modification %s adds no atom' % name)
        templates.append({'name': str(getattr(mod, 'name', name)), 'nodes': nodes,
                          'edges': sorted(sorted((pos[a], pos[b])) for a, b in mod.edges if a != b)})
        tindex[id(mod)] = ti
        orders.append(pos)
    return templates, tindex, sorted(keys), orders


def _resid_int(d):
    r = d.get('resid')
    return int(r) if isinstance(r, int) else -999


def project_molecule(mol, tindex, keys):
    """Molecule entering CanonicalizeModifications -> (record for TLC, atom keys by position, {key: position})."""
    order = list(mol.nodes)
    pos = {k: i for i, k in enumerate(order, 1)}
    res_index = {}
    nodes = []
    for k in order:
        d = mol.nodes[k]
        rkey = (str(d.get('chain')), _resid_int(d), str(d.get('resname')), str(d.get('insertion_code', '') or ''))
        res = res_index.setdefault(rkey, len(res_index) + 1)
        name = d.get('atomname')
        nodes.append({'resid': _resid_int(d), 'res': res, 'name': name if isinstance(name, str) else '<%r>' % (name,),
                      'el': str(d.get('element', '')), 'ptm': bool(d.get('PTM_atom', False)),
                      'mods': [tindex.get(id(m), 0) for m in (d.get('modifications') or [])],
                      'attrs': [[a, canon(d[a])] for a in keys if a in d],
                      'req': [str(x) for x in (d.get('modification') or [])]})
    adj = [sorted(pos[b] for b in mol[k] if b != k) for k in order]
    return {'nodes': nodes, 'adj': adj}, order, pos, {v: list(k) for k, v in res_index.items()}


class _Cap(logging.Handler):
    def __init__(self):
        super().__init__(level=logging.WARNING)
        self.n = 0
        self.other = []

    def emit(self, record):
        if getattr(record, 'type', '') == 'unknown-input':
            self.n += 1
        elif record.levelno >= logging.WARNING:
            self.other.append('%s/%s' % (record.levelname, getattr(record, 'type', 'general')))


def record_canonicalize(mol, run=None):
    """Project `mol`, run the REAL CanonicalizeModifications.run_molecule on it with identify_ptms interposed, project the
    result.  `run` = the original (un-interposed) run_molecule bound method when called from inside an interposed front end."""
    import vermouth.processors.canonicalize_modifications as cm
    templates, tindex, keys, torders = project_templates(mol.force_field.modifications)
    M, order, pos, residues = project_molecule(mol, tindex, keys)
    calls = []
    orig = cm.identify_ptms

    def spy(residue, residue_ptms, known_ptms):
        call = {'ptms': [{'atoms': sorted(pos[x] for x in a), 'anchors': sorted(pos[x] for x in b)} for a, b in residue_ptms],
                'resnodes': sorted(pos[x] for x in residue.nodes), 'outcome': 'unknown', 'cover': []}
        calls.append(call)
        result = orig(residue, residue_ptms, known_ptms)
        call['outcome'] = 'identified'
        for ptm, match in result:
            ti = tindex.get(id(ptm), 0)
            tp = torders[ti - 1] if ti else {}
            call['cover'].append({'t': ti, 'match': sorted([pos[a], tp.get(k, 0)] for a, k in match.items())})
        return result
    cm.identify_ptms = spy
    cap = _Cap()
    logger = logging.getLogger('vermouth')
    logger.addHandler(cap)
    err = ''
    try:
        if run is None:
            cm.CanonicalizeModifications().run_molecule(mol)
        else:
            run(mol)
    except Exception as exc:      # noqa
        err = 'CanonicalizeModifications raised %r' % (exc,)
    finally:
        cm.identify_ptms = orig
        logger.removeHandler(cap)
    final, lists = [], {}
    for k in order:
        if k in mol.nodes:
            d = mol.nodes[k]
            labels = d.get('modifications') or []
            if 'modifications' in d:
                lists.setdefault(id(labels), []).append(pos[k])
            final.append({'present': True, 'labels': [tindex.get(id(m), 0) for m in labels], 'attrs': [[a, canon(d[a])] for a in keys if a in d]})
        else:
            final.append({'present': False, 'labels': [], 'attrs': []})
    shared = [sorted(v) for v in lists.values() if len({M['nodes'][p - 1]['res'] for p in v}) > 1]     # one list object on atoms of several residues (D28; information)
    e = {'mol': M, 'templates': templates, 'calls': calls, 'final': final, 'warnings': cap.n, 'dropped': [], 'err': err,
         'keys': [k if isinstance(k, int) else repr(k) for k in order], 'residues': residues, 'shared_label_lists': shared,
         'new_atoms': sorted(repr(k) for k in mol.nodes if k not in pos)}
    if e['new_atoms'] and not err:
        e['err'] = 'CanonicalizeModifications added atoms %s' % e['new_atoms']
    return e


TLC_FIELDS = ('mol', 'templates', 'calls', 'final', 'warnings', 'dropped')


def slim(e):
    """What TLC sees (the `req` strings of atoms and `resnodes` of calls are information for the reader only)."""
    out = {k: e[k] for k in TLC_FIELDS}
    out['mol'] = {'nodes': [{k: v for k, v in n.items() if k != 'req'} for n in e['mol']['nodes']], 'adj': e['mol']['adj']}
    out['calls'] = [{k: v for k, v in c.items() if k != 'resnodes'} for c in e['calls']]
    return out


# ----------------------------------------------------------------------------------------------------------------------
# the martinize2 front end, in-process
_STATE = {}


def _load():
    if 'ffs' in _STATE:
        return _STATE
    from pathlib import Path
    import importlib.machinery
    import importlib.util
    import vermouth
    import vermouth.forcefield
    from vermouth.map_input import read_mapping_directory
    data = Path(vermouth.DATA_PATH)
    _STATE['ffs'] = vermouth.forcefield.find_force_fields(data / 'force_fields')
    _STATE['maps'] = read_mapping_directory(data / 'mappings', _STATE['ffs'])          # as the command does, before anything else
    path = os.path.join(common.REPO, 'bin', 'martinize2')
    loader = importlib.machinery.SourceFileLoader('verif_martinize2_c14', path)
    spec = importlib.util.spec_from_loader('verif_martinize2_c14', loader)
    mod = importlib.util.module_from_spec(spec)
    vlog = logging.getLogger('vermouth')
    handlers = list(vlog.handlers)
    loader.exec_module(mod)                     # defines read_system / pdb_to_universal; entry() is not run
    for h in list(vlog.handlers):               # the script attaches its console handler at import time
        if h not in handlers:
            vlog.removeHandler(h)
    _STATE['m2'] = mod
    return _STATE


def front_end_events(case):
    """case = {'structure', 'edits', 'mods', 'ff'?, 'ignore'?}.  One event per molecule that reaches CanonicalizeModifications."""
    from pathlib import Path
    import vermouth.processors.canonicalize_modifications as cm
    import vermouth.processors.repair_graph as rg
    st = _load()
    ff = st['ffs'][case.get('ff', 'charmm')]
    m2 = st['m2']
    work = tlc.scratch('c14pdb_')
    events = []
    repaired = {}
    orig_repair = rg.RepairGraph.run_molecule
    orig_canon = cm.CanonicalizeModifications.run_molecule

    def spy_repair(self, molecule):
        before = {k: dict(resid=d.get('resid'), name=str(d.get('atomname')), el=str(d.get('element', '')), chain=str(d.get('chain', '')),
                          req=[str(x) for x in (d.get('modification') or [])] + ['mutation:%s' % x for x in (d.get('mutation') or [])])
                  for k, d in molecule.nodes(data=True)}
        out = orig_repair(self, molecule)
        repaired[id(out)] = [dict(v, key=k if isinstance(k, int) else repr(k), resid=v['resid'] if isinstance(v['resid'], int) else -999)
                             for k, v in before.items() if k not in out.nodes]
        return out

    def spy_canon(self, molecule):
        e = record_canonicalize(molecule, run=lambda m: orig_canon(self, m))
        e['dropped'] = repaired.get(id(molecule), [])
        events.append(e)
        return molecule
    rg.RepairGraph.run_molecule = spy_repair
    cm.CanonicalizeModifications.run_molecule = spy_canon
    vlog = logging.getLogger('vermouth')
    old = vlog.level
    vlog.setLevel(logging.WARNING)
    try:
        pdb = Pdb(os.path.join(common.REPO, STRUCTURES[case['structure']]))
        for op in case.get('edits', []):
            edit(pdb, op)
        path = os.path.join(work, 'in.pdb')
        pdb.write(path)
        system = m2.read_system(Path(path), ignore_resnames=tuple(case.get("ignore", ("HOH",))), modelidx=1)   # the command defaults to model 1
        m2.pdb_to_universal(system, delete_unknown=True, force_field=ff, modifications=[list(x) for x in case['mods']])
    finally:
        rg.RepairGraph.run_molecule = orig_repair
        cm.CanonicalizeModifications.run_molecule = orig_canon
        vlog.setLevel(old)
        shutil.rmtree(work, ignore_errors=True)        # pool workers do not run the atexit clean-up
    for i, e in enumerate(events):
        e['family'] = 'real'
        e['used'] = [case['label']]
        e['scenario'] = {'case': case, 'molecule': i}
    return events


def _case_child(case):
    try:
        return ('ok', front_end_events(case))
    except Unsupported as exc:
        return ('unsupported', '%s: %s' % (case['label'], exc))
    except Exception as exc:      # noqa   (the front end refused the input before CanonicalizeModifications: not this property)
        import traceback
        return ('frontend', '%s: %r %s' % (case['label'], exc, traceback.format_exc()[-600:]))
