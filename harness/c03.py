"""C03 - coordinates, molecule types and system topology agree atom for atom.

spec/Output.tla        Name(dedup) -> SortAtoms|SkipSort -> WritePDB -> WriteTop on systems of molecule variants;
                       invariants KthAtomAgrees, TopIsRunLength, IncludeOnce, SameNameSameTopology, NameOpIsDecl   (MC/TAB)
spec/Trace_Output.tla  TLC evaluates the statement on the files a real run wrote                                   (TRACE)
harness/indep_readers.py  independent .pdb / .itp / .top readers

spec -> code: every system TLC enumerates (<= MaxMols molecules over a universe of variants: shapes that differ in one
atom name / one charge / one bond parameter / nrexcl / residue numbering, x node orders x atom-id assignments; dedup
on/off; atoms sorted or not) is built as a real System, named by the real NameMolType, optionally sorted by the real
SortMoleculeAtoms, written by the real write_gmx_topology and write_pdb through the real DeferredFileWriter into a
scratch directory; the three kinds of files are parsed by the independent readers and must equal the model's abstract
files.  Every such run is ALSO judged by TLC (Trace_Output) on the real files; a run whose files differ from the model's
but satisfy the statement is only counted (`model_deviations`).
code -> spec: random larger systems (near-duplicate molecules that differ in a single attribute, repeated and
interleaved) and real martinize2 command-line runs on multi-chain inputs (identical chains adjacent / interleaved with a
different one, with and without -sep), all judged by TLC."""
import copy
import hashlib
import json
import multiprocessing as mp
import os
import random
import re
import shutil
import tempfile

from . import common, tlc, tlaval
from . import indep_readers
from . import c02 as itpw

PID = 'C03'
T = tlaval.to_tla
NOAID = -1
MAXMOLS = 4
NAMESTR = ['molecule_%d' % i for i in range(MAXMOLS)]
KEY = {1: 4, 2: 1, 3: 7}          # node key of canonical atom c: neither contiguous nor in canonical order

CFG = ("SPECIFICATION Spec\nINVARIANT NameOpIsDecl\nINVARIANT KthAtomAgrees\nINVARIANT TopIsRunLength\n"
       "INVARIANT IncludeOnce\nINVARIANT SameNameSameTopology\nINVARIANT SortKeepsAtoms\n")


def _shape(atoms, bonds, nrexcl=1):
    return {'atoms': atoms, 'bonds': bonds, 'nrexcl': nrexcl}


_A_ATOMS = [('BB', 'ALA', 1, 'P1', 0.0), ('SC1', 'ALA', 1, 'C3', 0.0), ('BB', 'LYS', 2, 'Q5', 1.0)]
_A_BONDS = [((1, 2), ['1', '0.27', '7500']), ((1, 3), ['1', '0.35', '4000'])]
SHAPES = {
    'A': _shape(_A_ATOMS, _A_BONDS),
    'B': _shape([_A_ATOMS[0], ('SC2', 'ALA', 1, 'C3', 0.0), _A_ATOMS[2]], _A_BONDS),          # one atom name
    'C': _shape(_A_ATOMS, [((1, 2), ['1', '0.31', '7500']), _A_BONDS[1]]),                    # one bond parameter
    'D': _shape([('BB', 'ALA', 1, 'P1', 1.0)] + _A_ATOMS[1:], _A_BONDS),                      # one charge
    'E': _shape(_A_ATOMS, _A_BONDS, nrexcl=2),                                                # nrexcl
    'G': _shape([('BB', 'LYS', 2, 'Q5', 1.0), ('BB', 'ALA', 1, 'P1', 0.0), ('SC1', 'ALA', 1, 'C3', 0.0)],
                [((1, 2), ['1', '0.35', '4000']), ((2, 3), ['1', '0.27', '7500'])]),          # residues not in atom order
}


def V(shape, order, aid=None):
    aid = list(aid) if aid else [NOAID] * 3
    aid = [a if (c + 1) in order else NOAID for c, a in enumerate(aid + [NOAID] * (3 - len(aid)))]
    return {'shape': shape, 'order': tuple(order), 'aid': tuple(aid)}


def universes(tier, seed):
    u1 = [V('A', (1, 2)), V('A', (2, 1)), V('A', (2, 1), (1, 2)), V('B', (1, 2)), V('C', (1, 2)), V('D', (1, 2))]
    u2 = [V('A', (1, 2, 3)), V('A', (3, 1, 2)), V('A', (3, 1, 2), (1, 2, 3)), V('A', (1, 2, 3), (3, 1, 2)),
          V('G', (1, 2, 3)), V('E', (1, 2, 3)), V('A', (1, 2))]
    if tier == 'quick':
        return [(u1, 4), (u2, 3)]
    u3 = [V('A', (1, 2, 3), (2, NOAID, 1)), V('A', (1, 2, 3), (5, 5, 1)), V('A', (2, 3, 1), (NOAID, 1, NOAID)),
          V('G', (3, 2, 1), (1, 2, 3)), V('G', (3, 2, 1), (3, 2, 1)), V('C', (1, 2, 3)), V('D', (1, 2, 3)), V('B', (2, 1))]
    u4 = [V('G', (1, 2, 3), (2, 3, 1)), V('G', (2, 1, 3), (2, 3, 1)), V('G', (2, 1, 3)), V('E', (2, 1, 3)),
          V('A', (2, 1, 3)), V('A', (2, 1, 3), (2, 1, 3)), V('C', (2, 1, 3), (2, 1, 3)), V('D', (2, 1))]
    out = [(u1 + [V('E', (1, 2)), V('A', (1, 2), (2, 1))], 4), (u2 + [V('B', (3, 1, 2))], 4), (u3, 4), (u4, 4)]
    rng = random.Random(seed * 9176 + 5)
    space = []
    for sh in SHAPES:
        for order in [(1, 2), (2, 1), (1, 2, 3), (3, 1, 2), (2, 3, 1), (3, 2, 1)]:
            for aid in [None, (1, 2, 3), (3, 2, 1), (2, 3, 1), (1, 1, 2), (NOAID, 2, 1)]:
                space.append(V(sh, order, aid))
    for _ in range(2):
        base = rng.choice(space)
        near = [v for v in space if sum(v[k] != base[k] for k in ('shape', 'order', 'aid')) == 1]
        out.append(([base] + rng.sample(near, 5) + rng.sample(space, 2), 4))
    return out


def consts_of(universe, maxmols=MAXMOLS):
    tab = '[' + ', '.join('%s |-> %s' % (s, T(tuple({'name': a[0], 'resname': a[1], 'resid': a[2]} for a in d['atoms'])))
                          for s, d in SHAPES.items()) + ']'
    bonds = '[' + ', '.join('%s |-> %s' % (s, T(tuple(tuple(b[0]) for b in d['bonds']))) for s, d in SHAPES.items()) + ']'
    uniq = []
    for v in universe:
        if v not in uniq:
            uniq.append(v)
    return {'Universe': '{' + ', '.join(T(v) for v in uniq) + '}', 'MaxMols': str(maxmols), 'ShapeTab': tab,
            'ShapeBonds': bonds, 'NameStr': T(tuple(NAMESTR))}


# ----------------------------------------------------------------------------------------------------------------
# real runs

def build_variant(var, ff, rng, chain):
    import numpy as np
    from vermouth.molecule import Molecule
    sh = SHAPES[var['shape']]
    mol = Molecule(force_field=ff, nrexcl=sh['nrexcl'])
    for c in var['order']:
        name, resname, resid, atype, charge = sh['atoms'][c - 1]
        attrs = dict(atomname=name, resname=resname, resid=resid, atype=atype, charge_group=c, charge=charge,
                     chain=chain, position=np.array([rng.uniform(0, 9), rng.uniform(0, 9), rng.uniform(0, 9)]))
        if var['aid'][c - 1] != NOAID:
            attrs['atomid'] = var['aid'][c - 1]
        mol.add_node(KEY[c], **attrs)
    for (c1, c2), params in sh['bonds']:
        if c1 in var['order'] and c2 in var['order']:
            mol.add_interaction('bonds', (KEY[c1], KEY[c2]), list(params))
            mol.add_edge(KEY[c1], KEY[c2])
    return mol


def write_system(system, dedup, do_sort, molname='molecule'):
    """Real NameMolType (+ SortMoleculeAtoms) + write_gmx_topology + write_pdb + DeferredFileWriter().write() in a
    scratch directory.  Returns (names, files {name: text}, own [abstract itp per molecule])."""
    import vermouth
    from vermouth.file_writer import DeferredFileWriter
    from vermouth.gmx.topology import write_gmx_topology
    root = tempfile.mkdtemp(prefix='c03_')
    cwd = os.getcwd()
    writer = DeferredFileWriter()
    try:
        os.chdir(root)
        vermouth.NameMolType(deduplicate=dedup, molname=molname).run_system(system)
        if do_sort:
            vermouth.SortMoleculeAtoms().run_system(system)
        names = [m.meta['moltype'] for m in system.molecules]
        before = set(os.listdir(root))
        write_gmx_topology(system, 'topol.top', itp_paths=[])
        vermouth.pdb.write_pdb(system, 'out.pdb', omit_charges=True)
        early = set(os.listdir(root)) - before       # nothing may appear before the writer is finalised (C07's business)
        writer.write()
        files = {}
        for fn in sorted(os.listdir(root)):
            with open(fn) as fh:
                files[fn] = fh.read()
        own = [own_itp(m, nm) for m, nm in zip(system.molecules, names)]
        return names, files, own, sorted(early)
    finally:
        writer.close()
        os.chdir(cwd)
        shutil.rmtree(root, ignore_errors=True)


def abstract_itp(text):
    p = indep_readers.read_itp(text)
    return {'moltype': p['moltype'] or '', 'nrexcl': p['nrexcl'] or '', 'recs': p['records']}


def own_itp(mol, name):
    return abstract_itp(itpw.write_text(mol, moltype=name))


def abstract_files(files, top_name='topol.top', pdb_name='out.pdb'):
    pdb = indep_readers.read_pdb(files.get(pdb_name, ''))
    top = indep_readers.read_top(files.get(top_name, ''))
    itps = [{'name': fn[:-4], 'itp': abstract_itp(text)} for fn, text in sorted(files.items()) if fn.endswith('.itp')]
    return {
        'pdb': [[{'name': a['name'], 'resname': a['resname'], 'resid': a['resid']} for a in m] for m in pdb['molecules']],
        'top': {'includes': [re.sub(r'\.itp$', '', i) for i in top['includes']],
                'molecules': [{'name': n, 'n': c} for n, c in top['molecules']]},
        'itps': itps,
        'top_malformed': top['malformed'],
    }


def event_of(names, files, own, origin, **kw):
    e = abstract_files(files, **kw)
    e.update({'names': list(names), 'own': own, 'origin': origin})
    return e


def model_view(e):
    """The real files in the vocabulary of Output.tla (for the equality with TLC's abstract files)."""
    def coord(a):
        return {'name': a['name'], 'resname': a['resname'], 'resid': int(a['resid'])}
    itps = []
    for f in e['itps']:
        atoms = [r for r in f['itp']['recs'] if r['k'] == 'atom']
        bonds, sec = set(), None
        for r in f['itp']['recs']:
            if r['k'] == 'section':
                sec = r['s']
            elif r['k'] == 'inter' and sec == 'bonds':
                bonds.add(tuple(r['a']))
        itps.append({'name': f['name'], 'atoms': [{'name': r['p'][3], 'resname': r['p'][2], 'resid': int(r['p'][1])} for r in atoms],
                     'bonds': sorted(bonds)})
    return {'names': e['names'], 'pdb': [[coord(a) for a in m] for m in e['pdb']],
            'includes': [i for i in e['top']['includes'] if i != 'martini'],
            'molecules': [[m['name'], m['n']] for m in e['top']['molecules']],
            'itps': sorted(itps, key=lambda f: f['name'])}


def model_expect(st):
    n = itpw.norm
    return {'names': [NAMESTR[i] for i in st['ids']], 'pdb': n(st['pdb']),
            'includes': list(st['top']['includes']),
            'molecules': [[m['name'], m['n']] for m in st['top']['molecules']],
            'itps': sorted(({'name': f['name'], 'atoms': n(f['atoms']), 'bonds': sorted(tuple(b) for b in f['bonds'])}
                            for f in st['itps']), key=lambda f: f['name'])}


def run_model_system(variants, dedup, do_sort, seed):
    from vermouth.system import System
    from vermouth.forcefield import ForceField
    rng = random.Random(seed)
    ff = ForceField(name='verif')
    system = System(force_field=ff)
    for j, var in enumerate(variants):
        system.add_molecule(build_variant(var, ff, rng, 'ABCDEFGH'[j % 8]))
    system.meta['header'] = ['verif C03']
    return write_system(system, dedup, do_sort)


_HDR = re.compile(rb'^State \d+:', re.M)


def system_features(variants, names, do_sort):
    feats = set()
    if len(set(names)) < len(names):
        feats.add('molecules-sharing-a-type')
    if len(set(names)) >= 2:
        feats.add('different-types')
    runs = [n for i, n in enumerate(names) if i == 0 or names[i - 1] != n]
    if len(set(runs)) < len(runs):
        feats.add('type-recurs-after-interruption')
    if do_sort:
        feats.add('atoms-sorted')
    if variants is not None and any(list(v['order']) != sorted(v['order']) or any(a != NOAID for a in v['aid'])
                                    for v in variants):
        feats.add('node-order-or-atom-ids-not-canonical')
    return feats


def _hash(case):
    return hashlib.sha1(json.dumps(common.jsonable(case), sort_keys=True).encode()).hexdigest()[:16]


def _replay_range(job):
    path, lo, hi, seed = job
    with open(path, 'rb') as fh:
        fh.seek(lo)
        text = fh.read(hi - lo).decode()
    out = {'n': 0, 'events': [], 'nontrivial': set(), 'sample': None}
    for body in re.split(r'^State \d+:.*$', text, flags=re.M):
        if 'pc = "done"' not in body:
            continue
        st = tlaval.parse_state_body(body)
        variants = [dict(v) for v in itpw.norm(st['sys'])]
        for v in variants:
            v['order'], v['aid'] = tuple(v['order']), tuple(v['aid'])
        scenario = {'variants': variants, 'dedup': st['dedup'], 'sorted': st['sorted']}
        out['n'] += 1
        try:
            names, files, own, early = run_model_system(variants, st['dedup'], st['sorted'], seed + out['n'])
        except Exception as exc:
            out['events'].append({'scenario': scenario, 'error': repr(exc)})
            continue
        e = event_of(names, files, own, scenario)
        e['scenario'] = scenario
        e['equal_model'] = model_view(e) == model_expect(st) and not e['top_malformed']
        if not e['equal_model']:
            e['model'] = model_expect(st)
        if not e['equal_model']:
            e['files'] = files
        out['events'].append(e)
        if len(variants) >= 2 and len(system_features(variants, names, st['sorted'])) >= 2:
            out['nontrivial'].add(_hash(scenario))
            if out['sample'] is None and len(variants) >= 3 and len(set(names)) == 2:
                out['sample'] = {'kind': 'Output state replayed', 'scenario': scenario, 'tlc_expected': model_expect(st),
                                 'real_files': files}
    return out


def _dump_ranges(path, nparts, marker=b'pc = "done"'):
    """Byte ranges of the dump that together hold all states containing `marker` (TLC dumps breadth first, so the final
    states sit at the end of the file), balanced by the number of such states."""
    with open(path, 'rb') as fh:
        data = fh.read()
    starts = [mm.start() for mm in _HDR.finditer(data)] + [len(data)]
    wanted = [i for i in range(len(starts) - 1) if data.find(marker, starts[i], starts[i + 1]) >= 0]
    if not wanted:
        return []
    step = max(1, (len(wanted) + nparts - 1) // nparts)
    out = []
    for a in range(0, len(wanted), step):
        grp = wanted[a:a + step]
        out.append((path, starts[grp[0]], starts[grp[-1] + 1]))
    return out


# ----------------------------------------------------------------------------------------------------------------
# TRACE judge

JUDGE_FIELDS = ('names', 'pdb', 'itps', 'top', 'own')


def _judge(shard):
    work = tlc.scratch('c03j_')
    tf = tlc.write_json(work, 'trace.json', [{k: e[k] for k in JUDGE_FIELDS} for e in shard])
    res = tlc.run('Trace_Output', 'SPECIFICATION Spec\n', dump=True, env={'TRACE_FILE': tf}, workdir=work, workers=2,
                  timeout=2400)
    if res.violated:
        raise tlc.MachineryError('Trace_Output violated %s' % res.violated)
    verdicts = {st['tid']: st['verdict'] for st in res.states() if st['verdict'] != 'pending'}
    return res.distinct, res.generated, res.wall, verdicts


def judge_events(events, pool=None):
    if not events:
        return [], (0, 0, 0.0)
    nshards = max(1, min(8, len(events) // 200))
    shards = common.chunks(events, nshards)
    if pool is None:
        with mp.Pool(len(shards)) as p:
            res = p.map(_judge, shards)
    else:
        res = pool.map(_judge, shards)
    verdicts, dist, gen, wall = [], 0, 0, 0.0
    for shard, (d, g, w, vs) in zip(shards, res):
        dist, gen, wall = dist + d, gen + g, max(wall, w)
        if len(vs) != len(shard):
            raise tlc.MachineryError('trace verdicts missing: %d of %d' % (len(vs), len(shard)))
        verdicts += [vs[i] for i in range(1, len(shard) + 1)]
    return verdicts, (dist, gen, wall)


# ----------------------------------------------------------------------------------------------------------------
# code -> spec (a): random larger systems built from recipes

def rand_recipe(rng):
    n = rng.randint(2, 9)
    keys = rng.sample(range(0, 60), n)
    nres = rng.randint(1, 3)
    resids = sorted(rng.choice(range(1, nres + 1)) for _ in range(n))
    if rng.random() < 0.3:
        rng.shuffle(resids)
    style = rng.choice(['none', 'seq', 'perm', 'ties'])
    ids = list(range(1, n + 1))
    if style == 'perm':
        rng.shuffle(ids)
    atoms = []
    for i, k in enumerate(keys):
        a = {'key': k, 'atomname': rng.choice(['BB', 'SC1', 'SC2', 'SC3', 'CA', 'N']), 'resid': resids[i] * rng.choice([1, 1, 7]),
             'resname': ['ALA', 'LYS', 'TRP'][resids[i] % 3], 'atype': rng.choice(['P1', 'C3', 'Q5', 'TC4']),
             'charge_group': i + 1, 'charge': rng.choice([0.0, 1.0, -1.0])}
        if style in ('seq', 'perm'):
            a['atomid'] = ids[i]
        elif style == 'ties':
            a['atomid'] = rng.choice([1, 2, 3])
        atoms.append(a)
    inter = []
    for _ in range(rng.randint(0, 5)):
        kind = rng.choice(['bonds', 'angles', 'constraints', 'exclusions', 'impropers'])
        ar = {'bonds': 2, 'angles': 3, 'constraints': 2, 'exclusions': 2, 'impropers': 4}[kind]
        if n < ar:
            continue
        meta = {}
        if rng.random() < 0.25:
            meta['ifdef'] = 'FLEXIBLE'
        if rng.random() < 0.3:
            meta['group'] = 'grp'
        inter.append({'type': kind, 'atoms': rng.sample(keys, ar),
                      'params': [] if kind == 'exclusions' else [rng.choice(['1', '2']), rng.choice(['0.3', '0.47', '120'])],
                      'meta': meta})
    return {'atoms': atoms, 'inter': inter, 'nrexcl': rng.choice([1, 1, 3])}


def mutate_recipe(rng, rec):
    """A near-duplicate: exactly one thing differs (what a sloppy type comparison would overlook)."""
    r = copy.deepcopy(rec)
    how = rng.choice(['charge', 'atomname', 'atype', 'param', 'order', 'atomid', 'nrexcl', 'drop-inter', 'resid', 'none'])
    a = rng.choice(r['atoms'])
    if how == 'charge':
        a['charge'] = a['charge'] + 0.5
    elif how == 'atomname':
        a['atomname'] = 'X' + a['atomname'][:3]
    elif how == 'atype':
        a['atype'] = 'N6d'
    elif how == 'resid':
        a['resid'] = a['resid'] + 1
    elif how == 'param' and r['inter'] and r['inter'][0]['params']:
        r['inter'][0]['params'][-1] = '0.99'
    elif how == 'order' and len(r['atoms']) > 1:
        r['atoms'].append(r['atoms'].pop(0))
    elif how == 'atomid' and all('atomid' in x for x in r['atoms']) and len(r['atoms']) > 1:
        r['atoms'][0]['atomid'], r['atoms'][1]['atomid'] = r['atoms'][1]['atomid'], r['atoms'][0]['atomid'] + 10
    elif how == 'nrexcl':
        r['nrexcl'] += 1
    elif how == 'drop-inter' and r['inter']:
        r['inter'].pop()
    r['how'] = how
    return r


def build_recipe(rec, ff, rng, chain):
    import numpy as np
    from vermouth.molecule import Molecule
    mol = Molecule(force_field=ff, nrexcl=rec['nrexcl'])
    for a in rec['atoms']:
        attrs = {k: v for k, v in a.items() if k != 'key'}
        mol.add_node(a['key'], chain=chain, position=np.array([rng.uniform(0, 9) for _ in range(3)]), **attrs)
    for x in rec['inter']:
        mol.add_interaction(x['type'], tuple(x['atoms']), list(x['params']), dict(x['meta']))
    return mol


def random_system_scenario(rng):
    base = [rand_recipe(rng) for _ in range(rng.randint(1, 2))]
    palette = list(base)
    for _ in range(rng.randint(0, 3)):
        palette.append(mutate_recipe(rng, rng.choice(base)))
    seq = [rng.randrange(len(palette)) for _ in range(rng.randint(1, 8))]
    sortable = all(len({('atomid' in a) for a in p['atoms']}) == 1 for p in palette)
    return {'palette': palette, 'seq': seq, 'dedup': rng.random() < 0.7, 'sorted': sortable and rng.random() < 0.5,
            'molname': rng.choice(['molecule', 'prot', 'X']), 'seed': rng.randrange(1 << 30)}


def run_random_scenario(sc):
    from vermouth.system import System
    from vermouth.forcefield import ForceField
    rng = random.Random(sc['seed'])
    ff = ForceField(name='verif')
    system = System(force_field=ff)
    for j, pi in enumerate(sc['seq']):
        system.add_molecule(build_recipe(sc['palette'][pi], ff, rng, 'ABCDEFGH'[j % 8]))
    system.meta['header'] = ['verif C03 random system']
    names, files, own, _early = write_system(system, sc['dedup'], sc['sorted'], sc['molname'])
    return event_of(names, files, own, {'source': 'random system', 'scenario': sc})


def _random_chunk(args):
    n, seed = args
    rng = random.Random(seed)
    out = []
    for _ in range(n):
        sc = random_system_scenario(rng)
        try:
            e = run_random_scenario(sc)
        except Exception as exc:
            e = {'error': repr(exc), 'origin': {'source': 'random system', 'scenario': sc}}
        e['scenario'] = {'random': sc}
        out.append(e)
    return out


# ----------------------------------------------------------------------------------------------------------------
# code -> spec (b): the real command line

CLI_JOBS = {
    'quick': [('PSP', ['-ff', 'martini3001', '-nt', '-noscfix']),
              ('PSP', ['-ff', 'martini3001', '-nt', '-noscfix', '-sep']),
              ('PPS', ['-ff', 'martini3001', '-noscfix']),
              ('SPSP', ['-ff', 'martini22', '-noscfix']),
              ('WwW', ['-ff', 'martini3001', '-elastic', '-noscfix']),
              ('Ss', ['-ff', 'martini22', '-elastic', '-noscfix']),
              ('SPSP/ADCB', ['-ff', 'martini3001', '-noscfix', '-merge', 'A,D', '-merge', 'C,B'])],
    'thorough': [('SPSP/ADCB', ['-ff', 'martini3001', '-noscfix', '-merge', 'A,D', '-merge', 'C,B']),
                 ('PSPS/DACB', ['-ff', 'martini3001', '-noscfix', '-merge', 'D,A', '-merge', 'C,B', '-resid', 'input']),
                 ('WwW', ['-ff', 'martini3001', '-elastic', '-noscfix']), ('Ss', ['-ff', 'martini22', '-elastic', '-noscfix']),
                 ('SsS', ['-ff', 'elnedyn22']), ('WwwW', ['-ff', 'martini3001', '-elastic', '-eunit', 'chain', '-noscfix']),
                 ('PSP', ['-ff', 'martini3001', '-nt', '-noscfix']),
                 ('PSP', ['-ff', 'martini3001', '-nt', '-noscfix', '-sep']),
                 ('PPS', ['-ff', 'martini3001', '-noscfix']),
                 ('SPSP', ['-ff', 'martini22', '-noscfix']),
                 ('SPPS', ['-ff', 'martini3001', '-elastic', '-p', 'backbone']),
                 ('WPWWP', ['-ff', 'martini3001', '-noscfix', '-name', 'prot']),
                 ('PSPS', ['-ff', 'elnedyn22', '-noscfix', '-sep']),
                 ('HPH', ['-ff', 'martini3001', '-p', 'backbone']),
                 ('PSP', ['-ff', 'martini3001', '-merge', 'A,B']),
                 ('PPPP', ['-ff', 'martini3001', '-nt', '-noscfix']),
                 ('SWS', ['-ff', 'martini3001', '-go', '-go-eps', '9.4']),
                 ('PSSP', ['-ff', 'martini3001', '-merge', 'B,C', '-elastic'])],
}


def _cli_job(job):
    from . import cli_c03
    chains, options = job

    def on_system(system):
        names = [m.meta.get('moltype', '') for m in system.molecules]
        return {'names': names, 'own': [own_full(m, n) for m, n in zip(system.molecules, names)]}

    r = cli_c03.run_cli(chains, options, on_system)
    origin = {'source': 'martinize2 ' + r['argv'], 'chains': chains}
    if r['rc'] != 0 or r['captured'] is None:
        return {'error': 'rc=%s\n%s' % (r['rc'], r['log'][-800:]), 'origin': origin}
    e = event_of(r['captured']['names'], r['files'], r['captured']['own'], origin, top_name='topol.top', pdb_name='cg.pdb')
    # go / virtual-site runs write extra parameter files that are no molecule types
    e['itps'] = [f for f in e['itps'] if f['itp']['moltype'] != '' or f['name'] in e['names']]
    e['scenario'] = {'cli': {'chains': chains, 'options': options}}
    e['files'] = {k: v for k, v in r['files'].items() if k.endswith('.top')}
    return e


def own_full(mol, name):
    """As the topology writer calls the ITP writer (header lines are comments and never reach the records)."""
    return own_itp(mol, name)


# ----------------------------------------------------------------------------------------------------------------

def minimise_random(sc, why, rounds=8):
    """Shrink a random-system scenario: drop molecules one at a time while TLC still gives the same verdict on the files
    the real code writes for the smaller system; then drop the palette entries no longer used."""
    for _ in range(rounds):
        if len(sc['seq']) <= 1:
            break
        events = []
        for i in range(len(sc['seq'])):
            cand = dict(sc, seq=sc['seq'][:i] + sc['seq'][i + 1:])
            try:
                e = run_random_scenario(cand)
            except Exception:
                continue
            e['scenario'] = {'random': cand}
            events.append(e)
        if not events:
            break
        verdicts, _ = judge_events(events)
        keep = [e for e, v in zip(events, verdicts) if v == why]
        if not keep:
            break
        sc = keep[0]['scenario']['random']
    used = sorted(set(sc['seq']))
    return dict(sc, palette=[sc['palette'][i] for i in used], seq=[used.index(i) for i in sc['seq']])


def verdict_loop(events, verdicts, ev, vd, label):
    """Violations for judged events; smallest scenarios first."""
    failed = [(e, v) for e, v in zip(events, verdicts) if v != 'ok']
    failed.sort(key=lambda ev_v: (len(ev_v[0]['names']), sum(len(m) for m in ev_v[0]['pdb']), json.dumps(ev_v[0]['scenario'], sort_keys=True, default=str)))
    per_why = {}
    for e, v in failed:
        per_why.setdefault(v, []).append(e)
    for v, lst in per_why.items():
        for k, e in enumerate(lst[:2]):
            if k == 0 and 'random' in e['scenario']:
                try:
                    small = minimise_random(e['scenario']['random'], v)
                    e2 = run_random_scenario(small)
                    e2['scenario'] = {'random': small}
                    if judge_events([e2])[0][0] == v:
                        e = e2
                except (tlc.MachineryError, Exception):
                    pass
            vd.violation('files-disagree', dict(e['scenario'], why=v, names=e['names'], top=e['top'],
                                                files=e.get('files')),
                         '%s: TLC verdict on the real files: %s (%d runs with this verdict)' % (label, v, len(lst)))


def run(tier, seed, ev, vd):
    quick = tier == 'quick'
    ev.rule = ('TAB: every system of <= %d molecules over each universe of molecule variants x dedup on/off x atoms sorted or '
               'not; TRACE: random larger systems with near-duplicate molecules and real martinize2 runs on multi-chain '
               'inputs. Non-trivial = system of >= 2 molecules with >= 2 of {two molecules share a type, two different '
               'types, a type recurs after an interruption, atoms sorted, node order or atom ids not canonical}; distinct '
               'by (variants, dedup, sorted) resp. by scenario.' % MAXMOLS)
    ev.assumptions = [
        'TLC evaluates the TLA+ operators correctly; harness/indep_readers.py reads PDB columns / ITP / TOP as the formats say',
        'system.meta["header"] is non-empty, as the command line always makes it (the topology writer indexes header[-1])',
        'not generated: SortMoleculeAtoms on molecules where only some atoms have an atom id (TypeError in Python, '
        'unspecified), atom / residue names wider than the PDB columns, resid > 9999 (C16), empty systems (ValueError)',
        'own[j] (what the ITP writer states for molecule j alone) uses the real write_molecule_itp, verified by C02',
    ]
    nsys = 0
    all_events = []
    deviations = 0
    with mp.Pool(tlc.NCPU) as pool:
        for ui, (uni, maxmols) in enumerate(universes(tier, seed)):
            res = tlc.run('Output', CFG, consts=consts_of(uni, maxmols), dump=True, timeout=2400)
            if res.violated:
                raise tlc.MachineryError('Output model (universe %d) violates %s' % (ui, res.violated))
            ev.add_tlc('MC Output universe %d (%d variants, <= %d molecules)' % (ui, len(uni), maxmols), res)
            jobs = [(p, lo, hi, seed * 1000 + i * 100000) for i, (p, lo, hi) in enumerate(_dump_ranges(res.dump_path, tlc.NCPU * 4))]
            outs = pool.map(_replay_range, jobs)
            n = sum(o['n'] for o in outs)
            seen = {(e['scenario']['dedup'], e['scenario']['sorted'], len(set(e['names'])) < len(e['names']))
                    for o in outs for e in o['events'] if 'names' in e}
            if n == 0 or len(seen) < 6:      # vacuity: (dedup: shared | none shared; no dedup) x sorted or not
                raise tlc.MachineryError('vacuous model for universe %d: %d final states, cases %s' % (ui, n, sorted(seen)))
            nsys += n
            for o in outs:
                ev.nontrivial.update(o['nontrivial'])
                if o['sample'] and ui == 0:
                    ev.sample(o['sample'], limit=1)
                for e in o['events']:
                    if 'error' in e:
                        vd.violation('writer-raised', e['scenario'], 'real run raised %s' % e['error'])
                    else:
                        all_events.append(e)
        ev.exhaustive = True
        ev.traces += nsys
        ev.evaluations += nsys
        # every replayed run is also judged by TLC on its real files
        verdicts, (d, g, w) = judge_events(all_events, pool)
        ev.states += d
        ev.transitions += g
        ev.tlc_runs.append({'run': 'TRACE Trace_Output on the replayed systems', 'events': len(all_events),
                            'distinct_states': d, 'states_generated': g, 'wall_s': round(w, 2)})
        first_dev = None
        for e, v in zip(all_events, verdicts):
            if v == 'ok' and not e['equal_model']:
                deviations += 1
                first_dev = first_dev or e
        verdict_loop(all_events, verdicts, ev, vd, 'replayed system')
        ev.extra['model_deviations'] = deviations
        if deviations:
            print('NOTE property=C03 %d runs satisfy the statement but their files are not the ones Output.tla produces, '
                  'first: %s' % (deviations, json.dumps({'scenario': first_dev['scenario'], 'real': model_view(first_dev),
                                                         'model': first_dev['model']}, default=str)[:900]))
        nrand = 640 if quick else 16000
        parts = pool.map(_random_chunk, [(nrand // (tlc.NCPU * 2), seed * 6151 + i) for i in range(tlc.NCPU * 2)])
    rand_events = [e for p in parts for e in p]
    jobs = CLI_JOBS[tier]
    with mp.Pool(min(len(jobs), tlc.NCPU), maxtasksperchild=1) as pool:
        cli_events = pool.map(_cli_job, jobs, chunksize=1)
    for e in cli_events:
        if 'error' in e:
            raise tlc.MachineryError('martinize2 run failed (%s): %s' % (e['origin'], e['error']))
    for e in rand_events:
        if 'error' in e:
            vd.violation('writer-raised', e['scenario'], 'real run raised %s' % e['error'])
    trace_events = [e for e in rand_events if 'error' not in e] + cli_events
    verdicts, (d, g, w) = judge_events(trace_events)
    ev.states += d
    ev.transitions += g
    ev.tlc_runs.append({'run': 'TRACE Trace_Output on random systems and CLI runs', 'events': len(trace_events),
                        'distinct_states': d, 'states_generated': g, 'wall_s': round(w, 2)})
    ev.traces += len(trace_events)
    ev.evaluations += len(trace_events)
    for e in trace_events:
        if len(e['names']) >= 2 and len(system_features(None, e['names'], bool(e['scenario'].get('random', {}).get('sorted')))) >= 2:
            ev.nontrivial.add(_hash(e['scenario']))
    verdict_loop(trace_events, verdicts, ev, vd, 'recorded run')
    ev.extra['trace_events'] = {'random_systems': len(rand_events), 'cli_runs': len(cli_events),
                                'cli': [{'run': e['origin']['source'], 'chains': e['origin']['chains'], 'names': e['names'],
                                         'top_molecules': e['top']['molecules'], 'includes': e['top']['includes'],
                                         'verdict': v} for e, v in zip(cli_events, verdicts[len(trace_events) - len(cli_events):])]}
    c = cli_events[0]
    ev.sample({'kind': 'martinize2 run judged by TLC', 'origin': c['origin'], 'names': c['names'], 'top': c['top'],
               'pdb_first_molecule': c['pdb'][0][:6], 'verdict': verdicts[len(trace_events) - len(cli_events)]}, limit=3)


def replay(sc):
    if 'variants' in sc:
        variants = [dict(v, order=tuple(v['order']), aid=tuple(v['aid'])) for v in sc['variants']]
        names, files, own, _ = run_model_system(variants, sc['dedup'], sc['sorted'], 0)
        e = event_of(names, files, own, sc)
    elif 'random' in sc:
        e = run_random_scenario(sc['random'])
        files = None
    else:
        e = _cli_job((sc['cli']['chains'], sc['cli']['options']))
        if 'error' in e:
            print(e['error'])
            return 2
    print('molecule types in system order:', e['names'])
    print('top:', json.dumps(e['top']))
    print('itp files:', [f['name'] for f in e['itps']])
    for j, m in enumerate(e['pdb']):
        print('pdb molecule %d:' % j, [(a['name'], a['resname'], a['resid']) for a in m][:12])
    verdicts, _ = judge_events([e])
    print('TLC verdict (Trace_Output!Judge) on the real files:', verdicts[0], ' recorded:', sc.get('why'))
    return 0 if verdicts[0] == 'ok' else 1


def selftest(seed):
    """Binding demonstration: files of real runs with one field tampered must be rejected with the right clause."""
    rng = random.Random(seed)
    batch = []
    while len(batch) < 10:
        sc = random_system_scenario(rng)
        if len(sc['seq']) < 3:
            continue
        e = run_random_scenario(sc)
        if len(set(e['names'])) >= 2:
            batch.append(e)
    expect = {}
    e = batch[1]                                   # a count changed in [ molecules ]
    e['top']['molecules'][0]['n'] += 1
    expect[2] = 'top-does-not-list-the-molecule-types-in-coordinate-order-with-correct-counts'
    e = batch[3]                                   # an include duplicated
    e['top']['includes'].append(e['top']['includes'][-1])
    expect[4] = 'molecule-type-file-not-included-exactly-once'
    e = batch[5]                                   # two coordinate records swapped / renamed
    e['pdb'][0][0] = dict(e['pdb'][0][0], name='ZZ')
    expect[6] = 'kth-coordinate-record-is-not-the-kth-itp-atom'
    e = batch[7]                                   # a molecule whose own topology has another charge than the shared ITP
    j = 0
    recs = copy.deepcopy(e['own'][j]['recs'])
    i = next(i for i, r in enumerate(recs) if r['k'] == 'atom')
    recs[i]['p'][0] = 'OTHER'
    e['own'][j] = dict(e['own'][j], recs=recs)
    expect[8] = 'same-name-for-molecules-with-different-topologies'
    verdicts, _ = judge_events(batch)
    for i, v in enumerate(verdicts, 1):
        assert v == expect.get(i, 'ok'), (i, v, expect.get(i))
    print('selftest C03 (TRACE): tampered files rejected: %s; the other %d runs accepted'
          % ({i: verdicts[i - 1] for i in sorted(expect)}, len(batch) - len(expect)))
    # TAB binding: the model's expectation for one system vs the real files, then with one expected name flipped
    uni = universes('quick', seed)[0][0]
    res = tlc.run('Output', CFG, consts=consts_of(uni[:3], 3), dump=True)
    st = next(s for s in res.states() if s['pc'] == 'done' and len(s['sys']) == 3 and s['dedup'] and len(set(s['ids'])) == 2)
    variants = [dict(v, order=tuple(v['order']), aid=tuple(v['aid'])) for v in itpw.norm(st['sys'])]
    names, files, own, _ = run_model_system(variants, st['dedup'], st['sorted'], 1)
    e = event_of(names, files, own, {})
    exp = model_expect(st)
    assert model_view(e) == exp, (model_view(e), exp)
    exp['molecules'][0][1] += 1
    assert model_view(e) != exp
    print('selftest C03 (TAB): real files equal the files of Output.tla for ids %s; after flipping one expected count they differ'
          % (list(st['ids']),))
    return 0
