"""C03 - coordinates, molecule types and system topology agree atom for atom.

spec/Output.tla        Name(dedup) -> SortAtoms|SkipSort -> WritePDB -> WriteTop on systems of molecule variants;
                       invariants KthAtomAgrees, TopIsRunLength, IncludeOnce, SameNameSameTopology, NameOpIsDecl   (MC/TAB)
spec/Trace_Output.tla  TLC evaluates the statement on the COMPLETE set of files a real run wrote: coordinate file (PDB, and
                       the GRO file of the same system), every *.itp, the .top (#include, #define, [ molecules ]), the
                       parameter files of Go / water-bias runs; the files read back by the repository's own readers
                       (ItpAgree / FixedColOps re-used); a second write; re-naming in other orders            (TRACE)
harness/indep_readers.py  independent .pdb / .gro / .itp / .top / parameter-file readers
harness/cli_c03.py        the real martinize2 entry() in-process, input builder (chains, ligand, numbering, MODELs, GRO)

spec -> code: every system TLC enumerates (<= MaxMols molecules over a universe of variants: shapes that differ in one
atom name / one charge / one bond parameter / nrexcl / residue numbering, x node orders x atom-id assignments; dedup
on/off; atoms sorted or not) is built as a real System, named by the real NameMolType, optionally sorted by the real
SortMoleculeAtoms, written by the real write_gmx_topology, write_pdb and write_gro through the real DeferredFileWriter
into a scratch directory; the files are parsed by the independent readers and must equal the model's abstract files.
Every such run is ALSO judged by TLC (Trace_Output) on the real files, read back by vermouth's own readers, and some are
written a second time; a run whose files differ from the model's but satisfy the statement is only counted
(`model_deviations`).
code -> spec, all judged by TLC:
 (a) random larger systems (near-duplicate molecules that differ in a single attribute, repeated and interleaved; names and
     residue numbers wider than the coordinate columns), with a GRO leg, the read-back, a second write, the same
     molecules named again in other orders with and without deduplication, and CALLER-NAMED systems (names given through
     meta['moltype'], shared by identical and by different molecules);
 (b) real martinize2 command-line runs with the output-shaping options: -sep, -name, -merge (one set / two sets /
     all, labels in any order), -elastic (-eunit all / chain), -go <file> and -go, -water-bias with -ss, -resid input / mol on
     chains with different numbering offsets, gaps, negative numbers and numbers >= 10000 (GRO input), -ignh and
     hydrogen-free inputs, a ligand between protein chains, A B A B, several MODELs, -x cg.gro.

Memory: workers run AND judge their share (one TLC process per share) and return summaries; the parent never holds the
events of a tier."""
import copy
import hashlib
import json
import multiprocessing as mp
import os
import random
import re
import shutil
import tempfile

from . import common, tlc, tlaval
from . import indep_readers
from . import c02 as itpw
from . import c02_real as R

PID = 'C03'
T = tlaval.to_tla
NOAID = -1
MAXMOLS = 4
NAMESTR = ['molecule_%d' % i for i in range(MAXMOLS)]
NPROC = max(2, min(tlc.NCPU, int(os.environ.get('VERIF_C03_PROCS', tlc.NCPU))))       # worker processes of this check
KEY = {1: 4, 2: 1, 3: 7}          # node key of canonical atom c: neither contiguous nor in canonical order

CFG = ("SPECIFICATION Spec\nINVARIANT NameOpIsDecl\nINVARIANT KthAtomAgrees\nINVARIANT TopIsRunLength\n"
       "INVARIANT IncludeOnce\nINVARIANT SameNameSameTopology\nINVARIANT SortKeepsAtoms\nINVARIANT KthGroAgrees\n"
       "INVARIANT SharedIffEqual\n")

SIGNATURES = {}
# findings of this driver that wait for the lead's decision (id -> text): while known_findings.json has no entry with the
# id, a scenario matching SIGNATURES[id] is printed as a NOTE and counted in the evidence, not reported as a violation
PENDING = {}


def _shape(atoms, bonds, nrexcl=1):
    return {'atoms': atoms, 'bonds': bonds, 'nrexcl': nrexcl}


_A_ATOMS = [('BB', 'ALA', 1, 'P1', 0.0), ('SC1', 'ALA', 1, 'C3', 0.0), ('BB', 'LYS', 2, 'Q5', 1.0)]
_A_BONDS = [((1, 2), ['1', '0.27', '7500']), ((1, 3), ['1', '0.35', '4000'])]
SHAPES = {
    'A': _shape(_A_ATOMS, _A_BONDS),
    'B': _shape([_A_ATOMS[0], ('SC2', 'ALA', 1, 'C3', 0.0), _A_ATOMS[2]], _A_BONDS),          # one atom name
    'C': _shape(_A_ATOMS, [((1, 2), ['1', '0.31', '7500']), _A_BONDS[1]]),                    # one bond parameter
    'D': _shape([('BB', 'ALA', 1, 'P1', 1.0)] + _A_ATOMS[1:], _A_BONDS),                      # one charge
    'E': _shape(_A_ATOMS, _A_BONDS, nrexcl=2),                                                # nrexcl
    'G': _shape([('BB', 'LYS', 2, 'Q5', 1.0), ('BB', 'ALA', 1, 'P1', 0.0), ('SC1', 'ALA', 1, 'C3', 0.0)],
                [((1, 2), ['1', '0.35', '4000']), ((2, 3), ['1', '0.27', '7500'])]),          # residues not in atom order
}


def V(shape, order, aid=None):
    aid = list(aid) if aid else [NOAID] * 3
    aid = [a if (c + 1) in order else NOAID for c, a in enumerate(aid + [NOAID] * (3 - len(aid)))]
    return {'shape': shape, 'order': tuple(order), 'aid': tuple(aid)}


def universes(tier, seed):
    u1 = [V('A', (1, 2)), V('A', (2, 1)), V('A', (2, 1), (1, 2)), V('B', (1, 2)), V('C', (1, 2)), V('D', (1, 2))]
    u2 = [V('A', (1, 2, 3)), V('A', (3, 1, 2)), V('A', (3, 1, 2), (1, 2, 3)), V('A', (1, 2, 3), (3, 1, 2)),
          V('G', (1, 2, 3)), V('E', (1, 2, 3)), V('A', (1, 2))]
    if tier == 'quick':
        return [(u1, 4), (u2, 3)]
    u3 = [V('A', (1, 2, 3), (2, NOAID, 1)), V('A', (1, 2, 3), (5, 5, 1)), V('A', (2, 3, 1), (NOAID, 1, NOAID)),
          V('G', (3, 2, 1), (1, 2, 3)), V('G', (3, 2, 1), (3, 2, 1)), V('C', (1, 2, 3)), V('D', (1, 2, 3)), V('B', (2, 1))]
    u4 = [V('G', (1, 2, 3), (2, 3, 1)), V('G', (2, 1, 3), (2, 3, 1)), V('G', (2, 1, 3)), V('E', (2, 1, 3)),
          V('A', (2, 1, 3)), V('A', (2, 1, 3), (2, 1, 3)), V('C', (2, 1, 3), (2, 1, 3)), V('D', (2, 1))]
    out = [(u1 + [V('E', (1, 2)), V('A', (1, 2), (2, 1))], 4), (u2 + [V('B', (3, 1, 2))], 4), (u3, 4), (u4, 4)]
    rng = random.Random(seed * 9176 + 5)
    space = []
    for sh in SHAPES:
        for order in [(1, 2), (2, 1), (1, 2, 3), (3, 1, 2), (2, 3, 1), (3, 2, 1)]:
            for aid in [None, (1, 2, 3), (3, 2, 1), (2, 3, 1), (1, 1, 2), (NOAID, 2, 1)]:
                space.append(V(sh, order, aid))
    for _ in range(2):
        base = rng.choice(space)
        near = [v for v in space if sum(v[k] != base[k] for k in ('shape', 'order', 'aid')) == 1]
        out.append(([base] + rng.sample(near, 5) + rng.sample(space, 2), 4))
    return out


def consts_of(universe, maxmols=MAXMOLS):
    tab = '[' + ', '.join('%s |-> %s' % (s, T(tuple({'name': a[0], 'resname': a[1], 'resid': a[2]} for a in d['atoms'])))
                          for s, d in SHAPES.items()) + ']'
    bonds = '[' + ', '.join('%s |-> %s' % (s, T(tuple(tuple(b[0]) for b in d['bonds']))) for s, d in SHAPES.items()) + ']'
    uniq = []
    for v in universe:
        if v not in uniq:
            uniq.append(v)
    return {'Universe': '{' + ', '.join(T(v) for v in uniq) + '}', 'MaxMols': str(maxmols), 'ShapeTab': tab,
            'ShapeBonds': bonds, 'NameStr': T(tuple(NAMESTR))}


# ----------------------------------------------------------------------------------------------------------------
# real runs of the library writers

def build_variant(var, ff, rng, chain):
    import numpy as np
    from vermouth.molecule import Molecule
    sh = SHAPES[var['shape']]
    mol = Molecule(force_field=ff, nrexcl=sh['nrexcl'])
    for c in var['order']:
        name, resname, resid, atype, charge = sh['atoms'][c - 1]
        attrs = dict(atomname=name, resname=resname, resid=resid, atype=atype, charge_group=c, charge=charge,
                     chain=chain, position=np.array([rng.uniform(0, 9), rng.uniform(0, 9), rng.uniform(0, 9)]))
        if var['aid'][c - 1] != NOAID:
            attrs['atomid'] = var['aid'][c - 1]
        mol.add_node(KEY[c], **attrs)
    for (c1, c2), params in sh['bonds']:
        if c1 in var['order'] and c2 in var['order']:
            mol.add_interaction('bonds', (KEY[c1], KEY[c2]), list(params))
            mol.add_edge(KEY[c1], KEY[c2])
    return mol


def _read_dir(path):
    files = {}
    for fn in sorted(os.listdir(path)):
        full = os.path.join(path, fn)
        if os.path.isfile(full):
            with open(full, errors='replace') as fh:
                files[fn] = fh.read()
    return files


def write_system(system, dedup, do_sort, molname='molecule', caller_names=None, legs=('gro', 'rb')):
    """Real NameMolType (or the caller's names) (+ SortMoleculeAtoms) + write_gmx_topology + write_pdb (+ write_gro) +
    DeferredFileWriter().write() in a scratch directory.  legs: 'gro' also write out.gro, 'rb' read the files back with the
    repository's readers, 'again' write everything a second time (into a sub-directory).
    Returns {'names', 'files', 'own', 'early', 'rb', 'again_files', 'refused'}."""
    import vermouth
    from vermouth.file_writer import DeferredFileWriter
    from vermouth.gmx.topology import write_gmx_topology
    from vermouth.gmx.gro import write_gro
    root = tempfile.mkdtemp(prefix='c03_')
    cwd = os.getcwd()
    writer = DeferredFileWriter()
    try:
        os.chdir(root)
        if caller_names is None:
            vermouth.NameMolType(deduplicate=dedup, molname=molname).run_system(system)
        else:
            for mol, nm in zip(system.molecules, caller_names):
                mol.meta['moltype'] = nm
        if do_sort:
            vermouth.SortMoleculeAtoms().run_system(system)
        names = [m.meta['moltype'] for m in system.molecules]
        own = [own_itp(m, nm) for m, nm in zip(system.molecules, names)]
        out = {'names': names, 'own': own, 'files': {}, 'early': [], 'rb': None, 'again_files': None, 'refused': ''}
        before = set(os.listdir(root))

        def write_all():
            write_gmx_topology(system, 'topol.top', itp_paths=[])
            vermouth.pdb.write_pdb(system, 'out.pdb', omit_charges=True)
            if 'gro' in legs:
                write_gro(system, 'out.gro')

        try:
            write_all()
        except Exception as exc:      # noqa
            if caller_names is None:
                raise
            writer.close()
            out['refused'] = repr(exc)
            return out
        out['early'] = sorted(set(os.listdir(root)) - before)   # nothing may appear before the writer is finalised (C07's business)
        writer.write()
        out['files'] = _read_dir(root)
        if 'rb' in legs:
            out['rb'] = read_back(root, out['files'], 'out.pdb', 'out.gro' if 'gro' in legs else None)
        if 'again' in legs:
            os.mkdir('again')
            os.chdir('again')
            write_all()
            writer.write()
            out['again_files'] = _read_dir(os.path.join(root, 'again'))
        return out
    finally:
        writer.close()
        os.chdir(cwd)
        shutil.rmtree(root, ignore_errors=True)


def abstract_itp(text):
    p = indep_readers.read_itp(text)
    return {'moltype': p['moltype'] or '', 'nrexcl': p['nrexcl'] or '', 'recs': p['records']}


def own_itp(mol, name):
    return abstract_itp(itpw.write_text(mol, moltype=name))


EXTRA_FILES = (('go', 'go_atomtypes.itp', 'go_nbparams.itp'),
               ('vs', 'virtual_sites_atomtypes.itp', 'virtual_sites_nonbond_params.itp'))


def abstract_extra(files):
    out = {'kind': 'none', 'atomtypes': [], 'atparams': [], 'nbparams': [], 'nbvalues': [], 'malformed': []}
    for kind, fa, fn in EXTRA_FILES:
        if fa not in files and fn not in files:
            continue
        if out['kind'] != 'none':
            out['malformed'].append('both go_* and virtual_sites_* files')
        out['kind'] = kind
        pa = indep_readers.read_param_file(files.get(fa, ''))
        pn = indep_readers.read_param_file(files.get(fn, ''))
        out['atomtypes'] += pa['atomtypes']
        out['atparams'] += pa['atparams']
        out['nbparams'] += pn['nbparams']
        out['nbvalues'] += pn['nbvalues']
        out['malformed'] += pa['malformed'] + pn['malformed']
        if pa['nbparams'] or pn['atomtypes']:
            out['malformed'].append('directive in the wrong parameter file')
    return out


def _coord3(a):
    return {'name': a['name'], 'resname': a['resname'], 'resid': a['resid']}


def abstract_files(files, top_name='topol.top', pdb_name='out.pdb', gro_name=None):
    pdb = indep_readers.read_pdb(files.get(pdb_name, ''))
    top = indep_readers.read_top(files.get(top_name, ''))
    itps = []
    for fn, text in sorted(files.items()):
        if fn.endswith('.itp'):
            a = abstract_itp(text)
            if a['moltype'] != '' or not any(fn in x[1:] for x in EXTRA_FILES):
                itps.append({'name': fn[:-4], 'itp': a})
    gro = []
    if gro_name and gro_name in files:
        gro = [[_coord3(a) for a in indep_readers.read_gro(files[gro_name])['atoms']]]
    return {
        'pdb': [[dict(_coord3(a), chain=a['chain']) for a in m] for m in pdb['molecules']],
        'gro': gro,
        'top': {'includes': [re.sub(r'\.itp$', '', i) for i in top['includes']],
                'molecules': [{'name': n, 'n': c} for n, c in top['molecules']],
                'defines': list(top['defines']), 'malformed': list(top['malformed'])},
        'itps': itps,
        'extra': abstract_extra(files),
    }


def _proj_atom(d):
    resid = d.get('resid')
    return {'name': str(d.get('atomname')), 'resname': str(d.get('resname')),
            'resid': int(resid) if isinstance(resid, int) and abs(resid) < R.BIG else R.BIG}


def read_back(dirpath, files, pdb_name, gro_name):
    """The written files as the REPOSITORY'S OWN readers see them, projected field by field (no interpretation).
    The coordinate file is read with read_pdb whatever its extension (martinize2 -x always writes PDB text)."""
    import vermouth.pdb
    from vermouth.gmx.gro import read_gro
    out = {'pdb': [], 'gro': [], 'itps': [], 'errors': []}
    try:
        mols = vermouth.pdb.read_pdb(os.path.join(dirpath, pdb_name), exclude=(), ignh=False, modelidx=1)
        out['pdb'] = [[_proj_atom(d) for _, d in m.nodes(data=True)] for m in mols]
    except Exception as exc:      # noqa - a refusal shows as "another number of molecules"
        out['errors'].append('read_pdb: %r' % (exc,))
    if gro_name and gro_name in files:
        try:
            mol = read_gro(os.path.join(dirpath, gro_name), exclude=())
            out['gro'] = [[_proj_atom(d) for _, d in mol.nodes(data=True)]]
        except Exception as exc:      # noqa
            out['errors'].append('read_gro: %r' % (exc,))
    for fn, text in sorted(files.items()):
        if not fn.endswith('.itp'):
            continue
        parsed = indep_readers.read_itp(text)
        if not parsed['moltype']:
            continue
        n = R._int_tok(parsed['nrexcl'] or '')
        out['itps'].append({'name': fn[:-4], 'nrexcl_n': -1 if n is None else n,
                            'num': R.numeric_reading(parsed['records']), 'rd': R.repo_reading(text)})
    return out


NO_OPT = {'judged': False, 'go': False, 'sep': False, 'callernamed': False, 'molname': 'molecule', 'chains': [], 'merge': [],
          'all': False}
JUDGE_FIELDS = ('names', 'pdb', 'gro', 'itps', 'top', 'own', 'extra', 'opt', 'rb', 'again', 'hist', 'refused')
EMPTY_FILES = {'pdb': [], 'gro': [], 'itps': [], 'extra': {'kind': 'none', 'atomtypes': [], 'atparams': [], 'nbparams': [], 'nbvalues': [], 'malformed': []},
               'top': {'includes': [], 'molecules': [], 'defines': [], 'malformed': []}}


def event_of(run, origin, opt=None, hist=(), **kw):
    """run: result of write_system (or the same keys from a command-line run) -> the event Trace_Output judges."""
    gro_name = kw.pop('gro_name', 'out.gro')
    e = abstract_files(run['files'], gro_name=gro_name, **kw) if not run.get('refused') else copy.deepcopy(EMPTY_FILES)
    e.update({'names': list(run['names']), 'own': run['own'], 'origin': origin, 'opt': dict(NO_OPT, **(opt or {})),
              'hist': list(hist), 'refused': bool(run.get('refused')), 'rb': [], 'again': []})
    if run.get('rb') is not None:
        e['rb'] = [{k: run['rb'][k] for k in ('pdb', 'gro', 'itps')}]
        e['rb_errors'] = run['rb']['errors']
    if run.get('again_files') is not None:
        a = abstract_files(run['again_files'], gro_name=gro_name, **kw)
        e['again'] = [{k: a[k] for k in ('pdb', 'gro', 'itps', 'top', 'extra')}]
    return e


def model_view(e):
    """The real files in the vocabulary of Output.tla (for the equality with TLC's abstract files)."""
    def coord(a):
        return {'name': a['name'], 'resname': a['resname'], 'resid': int(a['resid'])}
    itps = []
    for f in e['itps']:
        atoms = [r for r in f['itp']['recs'] if r['k'] == 'atom']
        bonds, sec = set(), None
        for r in f['itp']['recs']:
            if r['k'] == 'section':
                sec = r['s']
            elif r['k'] == 'inter' and sec == 'bonds':
                bonds.add(tuple(r['a']))
        itps.append({'name': f['name'], 'atoms': [{'name': r['p'][3], 'resname': r['p'][2], 'resid': int(r['p'][1])} for r in atoms],
                     'bonds': sorted(bonds)})
    return {'names': e['names'], 'pdb': [[coord(a) for a in m] for m in e['pdb']],
            'gro': [coord(a) for a in e['gro'][0]] if e['gro'] else [],
            'includes': [i for i in e['top']['includes'] if i != 'martini'],
            'molecules': [[m['name'], m['n']] for m in e['top']['molecules']],
            'itps': sorted(itps, key=lambda f: f['name'])}


def model_expect(st):
    n = itpw.norm
    return {'names': [NAMESTR[i] for i in st['ids']], 'pdb': n(st['pdb']), 'gro': n(st['gro']),
            'includes': list(st['top']['includes']),
            'molecules': [[m['name'], m['n']] for m in st['top']['molecules']],
            'itps': sorted(({'name': f['name'], 'atoms': n(f['atoms']), 'bonds': sorted(tuple(b) for b in f['bonds'])}
                            for f in st['itps']), key=lambda f: f['name'])}


def run_model_system(variants, dedup, do_sort, seed, legs=('gro', 'rb')):
    from vermouth.system import System
    from vermouth.forcefield import ForceField
    rng = random.Random(seed)
    ff = ForceField(name='verif')
    system = System(force_field=ff)
    for j, var in enumerate(variants):
        system.add_molecule(build_variant(var, ff, rng, 'ABCDEFGH'[j % 8]))
    system.meta['header'] = ['verif C03']
    return write_system(system, dedup, do_sort, legs=legs)


_HDR = re.compile(rb'^State \d+:', re.M)


def system_features(variants, names, do_sort):
    feats = set()
    if len(set(names)) < len(names):
        feats.add('molecules-sharing-a-type')
    if len(set(names)) >= 2:
        feats.add('different-types')
    runs = [n for i, n in enumerate(names) if i == 0 or names[i - 1] != n]
    if len(set(runs)) < len(runs):
        feats.add('type-recurs-after-interruption')
    if do_sort:
        feats.add('atoms-sorted')
    if variants is not None and any(list(v['order']) != sorted(v['order']) or any(a != NOAID for a in v['aid'])
                                    for v in variants):
        feats.add('node-order-or-atom-ids-not-canonical')
    return feats


def _hash(case):
    return hashlib.sha1(json.dumps(common.jsonable(case), sort_keys=True).encode()).hexdigest()[:16]


# ----------------------------------------------------------------------------------------------------------------
# TRACE judge: one TLC process on a share of events, inside the worker that produced them

def for_tlc(e):
    return {k: e[k] for k in JUDGE_FIELDS}


def _judge(shard, workers=2):
    """TLC verdicts ("ok" or failed clauses joined by ';') for a list of events, and the TLC statistics."""
    if not shard:
        return [], (0, 0, 0.0)
    work = tempfile.mkdtemp(prefix='c03j_')
    try:
        tf = tlc.write_json(work, 'trace.json', [for_tlc(e) for e in shard])
        res = tlc.run('Trace_Output', 'SPECIFICATION Spec\n', dump=True, env={'TRACE_FILE': tf}, workdir=work,
                      workers=workers, timeout=2400)
        if res.violated:
            raise tlc.MachineryError('Trace_Output violated %s' % res.violated)
        verdicts = {st['tid']: st['verdict'] for st in res.states() if st['verdict'] != 'pending'}
        if len(verdicts) != len(shard):
            raise tlc.MachineryError('trace verdicts missing: %d of %d' % (len(verdicts), len(shard)))
        return [verdicts[i] for i in range(1, len(shard) + 1)], (res.distinct, res.generated, res.wall)
    finally:
        shutil.rmtree(work, ignore_errors=True)


def judge_events(events, pool=None):
    """(small batches: replay, selftest, minimisation) verdicts and statistics, judged in this process"""
    return _judge(list(events))


def parts_of(verdict):
    return [] if (verdict == 'ok' or verdict.startswith('observation:')) else verdict.split(';')


def _size(e):
    return (len(e['names']), sum(len(m) for m in e['pdb']), json.dumps(e['scenario'], sort_keys=True, default=str))


OBS_CLASH = 'observation:caller-named-clash-not-refused'
LEGS = ('gro', 'rb', 'again', 'hist', 'caller-named', 'refused', 'wide-name', 'wide-number')


def summarise(events, verdicts, stats, keep=2):
    """What a worker returns instead of its events: counts, the smallest failing events per clause, coverage facts."""
    out = {'n': len(events), 'ok': 0, 'counts': {}, 'kept': {}, 'tlc': stats, 'legs': {k: 0 for k in LEGS}}
    for e, v in zip(events, verdicts):
        ps = parts_of(v)
        if v.startswith('observation:'):
            out['legs'][v] = out['legs'].get(v, 0) + 1
        if not ps:
            out['ok'] += 1
        for p in ps:
            out['counts'][p] = out['counts'].get(p, 0) + 1
            out['kept'].setdefault(p, []).append(e)
        for leg in ('gro', 'rb', 'again', 'hist'):
            out['legs'][leg] += bool(e[leg])
        out['legs']['refused'] += bool(e['refused'])
    for p, lst in out['kept'].items():
        lst.sort(key=_size)
        del lst[keep:]
    return out


def merge_summaries(parts):
    tot = {'n': 0, 'ok': 0, 'counts': {}, 'kept': {}, 'tlc': [0, 0, 0.0], 'legs': {k: 0 for k in LEGS}}
    for s in parts:
        tot['n'] += s['n']
        tot['ok'] += s['ok']
        for p, c in s['counts'].items():
            tot['counts'][p] = tot['counts'].get(p, 0) + c
        for p, lst in s['kept'].items():
            tot['kept'].setdefault(p, []).extend(lst)
        for k, c in s['legs'].items():
            tot['legs'][k] = tot['legs'].get(k, 0) + c
        tot['tlc'][0] += s['tlc'][0]
        tot['tlc'][1] += s['tlc'][1]
        tot['tlc'][2] = max(tot['tlc'][2], s['tlc'][2])
    for p, lst in tot['kept'].items():
        lst.sort(key=_size)
        del lst[2:]
    return tot


# ----------------------------------------------------------------------------------------------------------------
# spec -> code: the final states of the Output model, replayed and judged range by range

CORE_PREFIXES = ('gro:', 'readback:', 'history:', 'extra:', 'option:')


def _replay_range(job):
    path, lo, hi, seed, universe = job
    with open(path, 'rb') as fh:
        fh.seek(lo)
        text = fh.read(hi - lo).decode()
    out = {'n': 0, 'errors': [], 'nontrivial': set(), 'sample': None, 'seen': set(), 'deviations': 0, 'first_dev': None,
           'universe': universe}
    events = []
    for body in re.split(r'^State \d+:.*$', text, flags=re.M):
        if 'pc = "done"' not in body:
            continue
        st = tlaval.parse_state_body(body)
        variants = [dict(v) for v in itpw.norm(st['sys'])]
        for v in variants:
            v['order'], v['aid'] = tuple(v['order']), tuple(v['aid'])
        scenario = {'variants': variants, 'dedup': st['dedup'], 'sorted': st['sorted']}
        out['n'] += 1
        h = int(_hash(scenario), 16)
        legs = ('gro',) + (('rb',) if h % 2 == 0 else ()) + (('again',) if h % 8 == 0 else ())
        try:
            run = run_model_system(variants, st['dedup'], st['sorted'], seed + out['n'], legs)
        except Exception as exc:      # noqa
            out['errors'].append({'scenario': scenario, 'error': repr(exc)})
            continue
        e = event_of(run, scenario)
        e['scenario'] = scenario
        e['equal_model'] = model_view(e) == model_expect(st) and not e['top']['malformed'] and not run['early']
        if not e['equal_model']:
            e['model'] = model_expect(st)
            e['files'] = run['files']
        events.append(e)
        names = e['names']
        out['seen'].add((st['dedup'], st['sorted'], len(set(names)) < len(names)))
        if len(variants) >= 2 and len(system_features(variants, names, st['sorted'])) >= 2:
            out['nontrivial'].add(_hash(scenario))
            if out['sample'] is None and len(variants) >= 3 and len(set(names)) == 2:
                out['sample'] = {'kind': 'Output state replayed', 'scenario': scenario, 'tlc_expected': model_expect(st),
                                 'real_files': run['files']}
    verdicts, stats = _judge(events, workers=1)
    for e, v in zip(events, verdicts):
        if not e['equal_model'] and all(p.startswith(CORE_PREFIXES) for p in parts_of(v)):
            out['deviations'] += 1
            out['first_dev'] = out['first_dev'] or {'scenario': e['scenario'], 'real': model_view(e), 'model': e['model']}
    out['summary'] = summarise(events, verdicts, stats)
    return out


def _dump_ranges(path, nparts, marker=b'pc = "done"'):
    """Byte ranges of the dump that together hold all states containing `marker` (TLC dumps breadth first, so the final
    states sit at the end of the file), balanced by the number of such states."""
    with open(path, 'rb') as fh:
        data = fh.read()
    starts = [mm.start() for mm in _HDR.finditer(data)] + [len(data)]
    wanted = [i for i in range(len(starts) - 1) if data.find(marker, starts[i], starts[i + 1]) >= 0]
    if not wanted:
        return []
    step = max(1, (len(wanted) + nparts - 1) // nparts)
    out = []
    for a in range(0, len(wanted), step):
        grp = wanted[a:a + step]
        out.append((path, starts[grp[0]], starts[grp[-1] + 1]))
    return out


# ----------------------------------------------------------------------------------------------------------------
# code -> spec (a): random larger systems built from recipes

ATOMNAMES = ['BB', 'SC1', 'SC2', 'SC3', 'CA', 'N', 'BB', 'SC1', 'SC1AB', 'VERYLONG']       # the last two do not fit a PDB column
RESNAMES = ['ALA', 'LYS', 'TRP', 'BENZ', 'POPCX', 'LONGRESN']                              # the last three neither
RESFACTOR = [1, 1, 7, 1, 1, 3333, 40001, -1, -500]                                         # up to 120003, down to -1500


def rand_recipe(rng, wide=False):
    n = rng.randint(2, 9)
    keys = rng.sample(range(0, 60), n)
    nres = rng.randint(1, 3)
    resids = sorted(rng.choice(range(1, nres + 1)) for _ in range(n))
    if rng.random() < 0.3:
        rng.shuffle(resids)
    style = rng.choice(['none', 'seq', 'perm', 'ties'])
    ids = list(range(1, n + 1))
    if style == 'perm':
        rng.shuffle(ids)
    atoms = []
    for i, k in enumerate(keys):
        a = {'key': k, 'atomname': rng.choice(ATOMNAMES if wide else ATOMNAMES[:6]),
             'resid': resids[i] * rng.choice(RESFACTOR if wide else RESFACTOR[:3]),
             'resname': (RESNAMES if wide else RESNAMES[:3])[resids[i] % (6 if wide else 3)],
             'atype': rng.choice(['P1', 'C3', 'Q5', 'TC4']),
             'charge_group': i + 1, 'charge': rng.choice([0.0, 1.0, -1.0])}
        if style in ('seq', 'perm'):
            a['atomid'] = ids[i]
        elif style == 'ties':
            a['atomid'] = rng.choice([1, 2, 3])
        atoms.append(a)
    inter = []
    for _ in range(rng.randint(0, 5)):
        kind = rng.choice(['bonds', 'angles', 'constraints', 'exclusions', 'impropers'])
        ar = {'bonds': 2, 'angles': 3, 'constraints': 2, 'exclusions': 2, 'impropers': 4}[kind]
        if n < ar:
            continue
        meta = {}
        if rng.random() < 0.25:
            meta['ifdef'] = 'FLEXIBLE'
        if rng.random() < 0.3:
            meta['group'] = 'grp'
        inter.append({'type': kind, 'atoms': rng.sample(keys, ar),
                      'params': [] if kind == 'exclusions' else [rng.choice(['1', '2']), rng.choice(['0.3', '0.47', '120'])],
                      'meta': meta})
    return {'atoms': atoms, 'inter': inter, 'nrexcl': rng.choice([1, 1, 3])}


def mutate_recipe(rng, rec):
    """A near-duplicate: exactly one thing differs (what a sloppy type comparison would overlook)."""
    r = copy.deepcopy(rec)
    how = rng.choice(['charge', 'atomname', 'atype', 'param', 'order', 'atomid', 'nrexcl', 'drop-inter', 'resid', 'none'])
    a = rng.choice(r['atoms'])
    if how == 'charge':
        a['charge'] = a['charge'] + 0.5
    elif how == 'atomname':
        a['atomname'] = 'X' + a['atomname'][:3]
    elif how == 'atype':
        a['atype'] = 'N6d'
    elif how == 'resid':
        a['resid'] = a['resid'] + 1
    elif how == 'param' and r['inter'] and r['inter'][0]['params']:
        r['inter'][0]['params'][-1] = '0.99'
    elif how == 'order' and len(r['atoms']) > 1:
        r['atoms'].append(r['atoms'].pop(0))
    elif how == 'atomid' and all('atomid' in x for x in r['atoms']) and len(r['atoms']) > 1:
        r['atoms'][0]['atomid'], r['atoms'][1]['atomid'] = r['atoms'][1]['atomid'], r['atoms'][0]['atomid'] + 10
    elif how == 'nrexcl':
        r['nrexcl'] += 1
    elif how == 'drop-inter' and r['inter']:
        r['inter'].pop()
    r['how'] = how
    return r


def build_recipe(rec, ff, rng, chain):
    import numpy as np
    from vermouth.molecule import Molecule
    mol = Molecule(force_field=ff, nrexcl=rec['nrexcl'])
    for a in rec['atoms']:
        attrs = {k: v for k, v in a.items() if k != 'key'}
        mol.add_node(a['key'], chain=chain, position=np.array([rng.uniform(0, 9) for _ in range(3)]), **attrs)
    for x in rec['inter']:
        mol.add_interaction(x['type'], tuple(x['atoms']), list(x['params']), dict(x['meta']))
    return mol


def random_system_scenario(rng):
    wide = rng.random() < 0.3
    base = [rand_recipe(rng, wide) for _ in range(rng.randint(1, 2))]
    palette = list(base)
    for _ in range(rng.randint(0, 3)):
        palette.append(mutate_recipe(rng, rng.choice(base)))
    if rng.random() < 0.06:
        # two copies that differ in ONE residue number, both >= 100000: adjacent integers an approximate comparison confuses
        # (D33: are_different used numpy.isclose for integers; fixed in /repo 3861b6a, kept as a regression guard)
        c1, c2 = copy.deepcopy(rng.choice(base)), None
        i = rng.randrange(len(c1['atoms']))
        c1['atoms'][i]['resid'] = 100000 + rng.randrange(0, 20000)
        c2 = copy.deepcopy(c1)
        c2['atoms'][i]['resid'] += 1
        c1['how'], c2['how'] = 'big-resid', 'big-resid+1'
        palette += [c1, c2]
    seq = [rng.randrange(len(palette)) for _ in range(rng.randint(1, 8))]
    if palette[-1].get('how') == 'big-resid+1' and rng.random() < 0.7:
        seq += [len(palette) - 2, len(palette) - 1]
    sortable = all(len({('atomid' in a) for a in p['atoms']}) == 1 for p in palette)
    sc = {'palette': palette, 'seq': seq, 'dedup': rng.random() < 0.7, 'sorted': sortable and rng.random() < 0.5,
          'molname': rng.choice(['molecule', 'prot', 'X']), 'seed': rng.randrange(1 << 30), 'legs': ['gro', 'rb']}
    roll = rng.random()
    if roll < 0.25:
        sc['legs'].append('again')
    elif roll < 0.50 and len(seq) >= 2:
        # HISTORY: the same molecules named again in other orders, with and without deduplication
        orders = [list(range(len(seq)))]
        for _ in range(rng.randint(1, 3)):
            p = list(range(len(seq)))
            rng.shuffle(p)
            orders.append(p)
        orders.append(list(reversed(range(len(seq)))))
        sc['renamings'] = [{'perm': p, 'dedup': rng.random() < 0.8} for p in orders]
    elif roll < 0.70:
        # CALLER-NAMED: meta['moltype'] set by the caller, NameMolType not run.  'by-recipe': one name per palette entry
        # (entries may be identical copies); 'clash': few names thrown over the molecules
        if rng.random() < 0.5:
            sc['caller_names'] = ['%s_%d' % (sc['molname'], pi) for pi in seq]
        else:
            k = rng.randint(1, max(1, len(set(seq))))
            sc['caller_names'] = ['%s_%d' % (sc['molname'], rng.randrange(k)) for _ in seq]
    return sc


def _build_system(sc, order=None):
    from vermouth.system import System
    from vermouth.forcefield import ForceField
    ff = ForceField(name='verif')
    system = System(force_field=ff)
    mols = []
    rng = random.Random(sc['seed'])
    for j, pi in enumerate(sc['seq']):
        mols.append(build_recipe(sc['palette'][pi], ff, rng, 'ABCDEFGH'[j % 8]))
    for j in (order if order is not None else range(len(mols))):
        system.add_molecule(mols[j])
    system.meta['header'] = ['verif C03 random system']
    return system


def run_random_scenario(sc):
    import vermouth
    system = _build_system(sc)
    run = write_system(system, sc['dedup'], sc['sorted'], sc['molname'], caller_names=sc.get('caller_names'),
                       legs=tuple(sc.get('legs', ('gro', 'rb'))))
    hist = []
    for r in sc.get('renamings', []):
        again = _build_system(sc, r['perm'])       # the same molecules (rebuilt from the same recipes and seed), this order
        vermouth.NameMolType(deduplicate=r['dedup'], molname=sc['molname']).run_system(again)
        hist.append({'perm': [p + 1 for p in r['perm']], 'dedup': r['dedup'],
                     'names': [m.meta['moltype'] for m in again.molecules]})
    return event_of(run, {'source': 'random system', 'scenario': sc},
                    opt={'molname': sc['molname'], 'callernamed': bool(sc.get('caller_names'))}, hist=hist)


def _wide(e):
    w = {'wide-name': False, 'wide-number': False}
    for f in e['itps']:
        for r in f['itp']['recs']:
            if r['k'] == 'atom':
                if len(r['p'][3]) > 4 or len(r['p'][2]) > 3:
                    w['wide-name'] = True
                if len(r['p'][1]) > 4:
                    w['wide-number'] = True
    return w


def _random_chunk(args):
    n, seed = args
    rng = random.Random(seed)
    events, errors, nontrivial = [], [], set()
    legs = {'caller-named': 0, 'wide-name': 0, 'wide-number': 0}
    for _ in range(n):
        sc = random_system_scenario(rng)
        try:
            e = run_random_scenario(sc)
        except Exception as exc:      # noqa
            errors.append({'scenario': {'random': sc}, 'error': repr(exc)})
            continue
        e['scenario'] = {'random': sc}
        events.append(e)
        legs['caller-named'] += bool(sc.get('caller_names'))
        for k, v in _wide(e).items():
            legs[k] += v
        if len(e['names']) >= 2 and len(system_features(None, e['names'], bool(sc['sorted']))) >= 2:
            nontrivial.add(_hash(e['scenario']))
    verdicts, stats = _judge(events, workers=1)
    s = summarise(events, verdicts, stats)
    s['legs'].update(legs)
    return {'summary': s, 'errors': errors, 'nontrivial': nontrivial}


# ----------------------------------------------------------------------------------------------------------------
# code -> spec (b): the real command line

NRES = {'P': 2, 'S': 29, 'H': 43, 'W': 20, 'U': 76, 'L': 1}
M3 = ['-ff', 'martini3001']
# residue index pairs (0-based); those of the beta-sheet peptide are contacts of its generated map (inside the 0.3-1.1 nm window)
CONTACT_IDX = {'S': ((9, 5), (10, 3), (11, 4), (12, 2), (13, 1), (14, 0), (23, 4), (25, 3), (26, 2), (27, 1), (28, 0)),
               '*': ((0, 9), (2, 11), (4, 19), (7, 16), (1, 13), (1, 6), (3, 18), (5, 10))}


def J(codes, options, labels=None, per=None, common=None, models=None, fmt='pdb', x='cg.pdb', tags=()):
    """One command-line job.  codes: chain codes of the (only) model ('PsLP', see cli_c03.chains_of); per: {index: chain
    fields} (start / gap / noh); models: list of code strings when the input has several MODELs."""
    from . import cli_c03
    def chains(cs, first):
        out = cli_c03.chains_of(cs.split('/')[0], **({'labels': labels} if labels else {}), **(common or {}))
        if '/' in cs:
            for ch, lab in zip(out, cs.split('/')[1]):
                ch['label'] = lab
        if first:
            for i, upd in (per or {}).items():
                out[int(i)].update(upd)
        return out
    mods = [chains(codes, True)] if models is None else [chains(m, i == 0) for i, m in enumerate(models)]
    return {'models': mods, 'fmt': fmt, 'x': x, 'options': list(options), 'tags': list(tags)}


def cli_jobs(tier, seed):
    nt = ['-nt', '-noscfix']
    quick = [
        J('SWS', M3 + ['-go', 'CONTACTS', '-name', 'foo', '-resid', 'input'], per={0: {'start': 5}, 2: {'start': 70}},
          tags=['go-file', 'resid-input']),
        J('SWS', M3 + ['-water-bias', '-ss', 'C', '-water-bias-eps', 'C:2.1'], tags=['vs-without-go']),
        # two DIFFERENT chains of nearly the same size: the virtual sites of both molecules have overlapping node keys
        J('WW', M3 + ['-water-bias', '-ss', 'C', '-water-bias-eps', 'C:2.1', '-mutate', 'B-SER14:GLY', '-maxwarn', '100'], tags=['vs-without-go']),
        # two copies of a disulfide-linked pair of chains (one molecule each, no -merge), the first labelled against the alphabet
        dict(J('PP', M3 + ['-maxwarn', '100'], tags=['chains-joined-by-bonds']), raw='BACD'),
        J('WwW', M3 + ['-elastic', '-noscfix'], tags=['conformations']),
        J('SPS', M3 + ['-elastic', '-eunit', 'all', '-name', 'net'], tags=['eunit-all']),
        J('SPSP/ADCB', M3 + ['-noscfix', '-merge', 'A,D', '-merge', 'C,B'], tags=['merge-two-sets']),
        J('SPS', M3 + ['-merge', 'all', '-name', 'foo'], tags=['merge-all']),
        J('PSP', M3 + ['-merge', 'C,A', '-ignh'], tags=['merge-one-set', 'ignh']),
        J('SPSP', ['-ff', 'martini22', '-noscfix', '-sep', '-name', 'prot'], x='cg.gro', tags=['sep', 'abab', 'gro-extension']),
        J('SPSP', ['-ff', 'martini22', '-noscfix'], tags=['abab']),
        J('SLS', M3, tags=['ligand']),
        J('SSSP', M3 + ['-resid', 'input'], per={0: {'start': 5}, 1: {'start': 5}, 2: {'start': 40}, 3: {'start': -3}},
          tags=['resid-input', 'offsets', 'negative']),
        J('PSP', M3 + ['-resid', 'input'], per={0: {'start': 100}, 1: {'start': 9990}, 2: {'start': 500}}, fmt='gro',
          tags=['gro-input', 'wrap', 'resid-input']),
        J('PS', M3 + ['-model', '2'], models=['PS', 'sSP'], common={'noh': True}, tags=['models', 'noh']),
        J('PPSP', M3 + nt, tags=['count-two']),
        J('Ss', ['-ff', 'martini22', '-elastic', '-noscfix'], tags=['conformations']),
        J('SS', M3 + ['-resid', 'mol'], per={0: {'start': 11}, 1: {'start': 31, 'gap': [10, 5]}}, tags=['offsets', 'gaps']),
    ]
    if tier == 'quick':
        return quick
    jobs = list(quick)
    jobs += [
        J('PSPS/DACB', M3 + ['-noscfix', '-merge', 'D,A', '-merge', 'C,B', '-resid', 'input'], tags=['merge-two-sets']),
        J('SsS', ['-ff', 'elnedyn22']), J('WwwW', M3 + ['-elastic', '-eunit', 'chain', '-noscfix']),
        J('PSP', M3 + nt), J('PSP', M3 + nt + ['-sep']), J('PPS', M3 + ['-noscfix']),
        J('SPPS', M3 + ['-elastic', '-p', 'backbone']), J('WPWWP', M3 + ['-noscfix', '-name', 'prot']),
        J('PSPS', ['-ff', 'elnedyn22', '-noscfix', '-sep']), J('HPH', M3 + ['-p', 'backbone']),
        J('PSP', M3 + ['-merge', 'A,B']), J('PPPP', M3 + nt),
        J('SWS', M3 + ['-go', '-go-eps', '9.4'], tags=['go-generated']),
        J('PSSP', M3 + ['-merge', 'B,C', '-elastic']),
        J('SWS', M3 + ['-go', 'CONTACTS', '-water-bias', '-ss', 'C', '-water-bias-eps', 'C:2.1', 'idr:1.0', '-id-regions', '3:8'],
          tags=['go-file']),
        J('UU', M3 + ['-sep'], tags=['noh']), J('UsU', M3 + ['-elastic']),
        J('SS', M3 + ['-resid', 'input'], per={0: {'start': 9980}, 1: {'start': 30000}}, fmt='gro', tags=['gro-input', 'wrap']),
    ]
    # seeded sample of the product: input kinds x option sets
    rng = random.Random(seed * 7919 + 3)
    inputs = ['PSP', 'PPS', 'SPSP', 'WwW', 'Ss', 'SLS', 'LSPL', 'SSS', 'PSPS', 'HPH', 'WPWWP', 'SLsL', 'WSWS', 'sS', 'PLP', 'SWSW']
    optsets = [[], ['-sep'], ['-name', 'xyz'], ['-merge', 'all'], ['-merge', 'SETS'], ['-merge', 'SETS', '-merge', 'SETS2'],
               ['-elastic'], ['-elastic', '-eunit', 'all'], ['-elastic', '-eunit', 'chain'], ['-go', 'CONTACTS'],
               ['-water-bias', '-ss', 'C', '-water-bias-eps', 'C:2.1'], ['-resid', 'input'], ['-ignh'], ['-sep', '-resid', 'input'],
               ['-go', 'CONTACTS', '-name', 'gomol', '-resid', 'input'], ['-p', 'backbone', '-sep'], ['-scfix', '-nt']]
    for _ in range(118):
        codes = rng.choice(inputs)
        opts = list(rng.choice(optsets))
        n = len(codes)
        labels = ''.join(rng.sample('ABCDEFGHIJKLMNOPQRSTUVWXYZ', n)) if rng.random() < 0.4 else 'ABCDEFGH'[:n]
        if 'SETS' in opts:
            idx = list(range(n))
            rng.shuffle(idx)
            k = rng.randint(2, max(2, n - 1)) if 'SETS2' not in opts else 2
            first, rest = idx[:k], idx[k:]
            opts[opts.index('SETS')] = ','.join(labels[i] for i in first)
            if 'SETS2' in opts:
                if len(rest) >= 2:
                    opts[opts.index('SETS2')] = ','.join(labels[i] for i in rest[:rng.randint(2, len(rest))])
                else:
                    del opts[opts.index('SETS2') - 1:opts.index('SETS2') + 1]
        ff = M3 if ('L' in codes.upper() or '-go' in opts or '-water-bias' in opts or rng.random() < 0.6) \
            else ['-ff', rng.choice(['martini22', 'elnedyn22', 'martini22p'])]
        per = {}
        how = rng.choice(['asis', 'asis', 'offsets', 'same-offset', 'gaps', 'negative'])
        for i in range(n):
            if how == 'offsets':
                per[i] = {'start': rng.choice([1, 5, 40, 200, 9000])}
            elif how == 'same-offset':
                per[i] = {'start': 17}
            elif how == 'gaps' and NRES[codes[i].upper()] > 4:
                per[i] = {'start': rng.choice([1, 30]), 'gap': [rng.randint(1, 3), rng.choice([1, 5, 100])]}
            elif how == 'negative':
                per[i] = {'start': rng.choice([-5, -1, 0, 3])}
        common = {'noh': True} if rng.random() < 0.15 else None
        x = 'cg.gro' if rng.random() < 0.2 else 'cg.pdb'
        if '-water-bias' in opts and 'L' in codes.upper():
            continue                                   # a ligand has no secondary structure: ComputeWaterBias raises KeyError
                                                       # ('cgsecstruct'), an unvalidated option combination (Martinize!Unvalidated)
        if '-go' in opts and not any(NRES[c.upper()] >= 20 for c in codes):
            continue                                   # no chain long enough for a contact: read_go_map refuses an empty map
        jobs.append(J(codes, ff + opts, labels=labels, per=per, common=common, x=x, tags=['sampled', how]))
    # the write gate is C07's / C08's business: deprecation and missing-feature warnings must not keep the files back here
    for job in jobs[len(quick):]:
        job['options'] += ['-maxwarn', '100']
    return jobs


def _selected_model(job):
    opts = job['options']
    k = int(opts[opts.index('-model') + 1]) if '-model' in opts else 1
    return job['models'][k - 1]


def opt_of(job):
    """What the command line was asked for, in the vocabulary of Trace_Output!Option (no expectation is computed here)."""
    opts = job['options']
    if job.get('raw'):          # molecules made of several chains without -merge: the option clauses do not apply
        return dict(NO_OPT)
    merge = [opts[i + 1] for i, o in enumerate(opts) if o == '-merge']
    go = '-go' in opts
    everything = go or 'all' in merge or ('-eunit' in opts and opts[opts.index('-eunit') + 1] == 'all')
    chains = [] if job['fmt'] == 'gro' else [ch['label'] for ch in _selected_model(job)]
    return {'judged': True, 'go': go, 'sep': '-sep' in opts,
            'molname': opts[opts.index('-name') + 1] if '-name' in opts else 'molecule',
            'chains': chains, 'merge': [] if (go or 'all' in merge) else [m.split(',') for m in merge], 'all': everything}


def contacts_text(chains):
    """A contact map in the format read_go_map accepts (18 columns, first 'R'; chain in columns 5 / 9, residue number AS IN
    THE INPUT in 6 / 10, OV flag in column 12), a few intra-chain pairs for every chain of >= 20 residues."""
    from . import cli_c03
    lines = []
    for ch in chains:
        if ch['code'] == 'L':
            continue
        nums = cli_c03.chain_numbers(ch)
        if len(nums) < 20:
            continue
        for a, b in CONTACT_IDX.get(ch['code'], CONTACT_IDX['*']):
            for u, v in ((a, b), (b, a)):          # a contact counts only when both directions are listed
                lines.append('R 1 1 XXX %s %d 2 YYY %s %d 6.0 1 0 0 1 0 0 0' % (ch['label'], nums[u], ch['label'], nums[v]))
    return '\n'.join(lines) + '\n'


def run_cli_job(job):
    """One real martinize2 run -> event (or {'error'})."""
    from . import cli_c03
    options = list(job['options'])
    extra_files = {}
    if 'CONTACTS' in options:
        extra_files['contacts.out'] = contacts_text(_selected_model(job))
        options[options.index('CONTACTS')] = 'contacts.out'
    text = cli_c03.insulin_pairs(job['raw']) if job.get('raw') else cli_c03.build_input(job)
    in_name = 'in.' + job['fmt']
    def on_system(system):
        names = [m.meta.get('moltype', '') for m in system.molecules]
        return {'names': names, 'own': [own_itp(m, n) for m, n in zip(system.molecules, names)]}

    def on_written(root, call):
        import vermouth
        from vermouth.file_writer import DeferredFileWriter
        files = _read_dir(root)
        rb = read_back(root, files, job['x'], None)
        # HISTORY: the same live system written a second time by the same two writers (into a sub-directory)
        os.mkdir('again')
        os.chdir('again')
        try:
            call['write'](call['system'], *call['args'], **call['kwargs'])
            vermouth.pdb.write_pdb(call['system'], job['x'], omit_charges=True)
            DeferredFileWriter().write()
        finally:
            os.chdir(root)
        return {'rb': rb, 'again_files': _read_dir(os.path.join(root, 'again'))}

    r = cli_c03.run_cli_input(text, options, on_system, in_name=in_name, x_name=job['x'], extra_files=extra_files,
                              on_written=on_written)
    origin = {'source': 'martinize2 ' + r['argv'], 'input': describe_input(job)}
    if r['rc'] != 0 or r['captured'] is None:
        return {'error': 'rc=%s\n%s' % (r['rc'], r['log'][-1200:]), 'origin': origin}
    run = {'names': r['captured']['names'], 'own': r['captured']['own'], 'files': r['files'], 'rb': r['written']['rb'],
           'again_files': r['written']['again_files']}
    e = event_of(run, origin, opt=opt_of(job), top_name='topol.top', pdb_name=job['x'], gro_name=None)
    e['scenario'] = {'cli': job}
    e['files'] = {k: v for k, v in r['files'].items() if k.endswith('.top')}
    e['facts'] = {'x-holds-pdb-text': job['x'].endswith('.gro') and 'ATOM' in r['files'].get(job['x'], '')}
    return e


def describe_input(job):
    def one(ch):
        s = ch['code'] if ch.get('stretch', 1.0) == 1.0 else ch['code'].lower()
        s += ':' + ch['label']
        for k in ('start', 'gap', 'noh'):
            if ch.get(k):
                s += ',%s=%s' % (k, ch[k])
        return s
    return '%s %s' % (job['fmt'], ' | '.join(' '.join(one(ch) for ch in m) for m in job['models']))


def cli_features(job, e):
    """What a run exercised (facts of the input and of the written files; no verdict involved): against vacuity."""
    feats = set(t for t in job['tags'] if t in ('gro-extension', 'models', 'noh', 'ignh', 'gro-input'))
    names = e['names']
    own = [json.dumps({'n': o['nrexcl'], 'r': o['recs']}, sort_keys=True) for o in e['own']]
    if len(set(names)) < len(names):
        feats.add('molecules-sharing-a-type')
    runs = [n for i, n in enumerate(names) if i == 0 or names[i - 1] != n]
    if len(set(runs)) < len(runs):
        feats.add('type-recurs-after-interruption')
    if any(a == b for a, b in zip(names, names[1:])):
        feats.add('count-above-one')                 # two successive molecules of one type: a [ molecules ] count of 2 is due
    if e['opt']['sep'] and len(set(own)) < len(own):
        feats.add('sep-on-identical-chains')
    if e['opt']['molname'] != 'molecule':
        feats.add('name-prefix')
    if any(len({a['chain'] for a in m}) >= 2 for m in e['pdb']):
        feats.add('molecule-of-several-chains')
    if len(e['opt']['merge']) >= 2:
        feats.add('merge-two-sets')
    if e['opt']['all'] and not e['opt']['go']:
        feats.add('all-merged-without-go')
    if e['extra']['kind'] == 'go':
        feats.add('go-files')
    if e['extra']['kind'] == 'vs':
        feats.add('virtual-sites-without-go')
    if e['extra']['nbparams']:
        feats.add('nonbond-params')
        if e['extra']['kind'] == 'go':
            feats.add('go-nonbond-params')
    if any(r['k'] == 'section' and r['s'] == 'virtual_sitesn' for f in e['itps'] for r in f['itp']['recs']):
        feats.add('virtual-sites-in-itp')
    w = _wide(e)
    if w['wide-number']:
        feats.add('residue-number-wider-than-the-pdb-column')
    if w['wide-name']:
        feats.add('residue-name-wider-than-the-pdb-column')
    if any(a['resid'].startswith('-') for m in e['pdb'] for a in m):
        feats.add('negative-residue-number')
    if '-resid' in job['options'] and job['options'][job['options'].index('-resid') + 1] == 'input':
        total = sum(NRES[ch['code']] for ch in _selected_model(job))
        nums = [int(r['p'][1]) for f in e['itps'] for r in f['itp']['recs'] if r['k'] == 'atom']
        if nums and (max(nums) > total or min(nums) < 1):        # numbers no per-molecule numbering from 1 can produce
            feats.add('input-numbers-restored')
    if any(a['resname'] == 'BEN' for m in e['pdb'] for a in m) and len(e['pdb']) >= 3:
        feats.add('ligand-among-proteins')
    if len(set(own)) < len(own) and len(set(names)) == len(names) and not e['opt']['sep']:
        feats.add('equal-topologies-kept-apart')
    return feats


CLI_MUST = {
    'quick': {'molecules-sharing-a-type', 'type-recurs-after-interruption', 'count-above-one', 'sep-on-identical-chains',
              'name-prefix', 'molecule-of-several-chains', 'merge-two-sets', 'all-merged-without-go', 'go-files',
              'virtual-sites-without-go', 'nonbond-params', 'virtual-sites-in-itp', 'residue-number-wider-than-the-pdb-column',
              'residue-name-wider-than-the-pdb-column', 'negative-residue-number', 'input-numbers-restored',
              'ligand-among-proteins', 'gro-extension', 'models', 'noh', 'ignh', 'gro-input', 'go-nonbond-params'},
}
CLI_MUST['thorough'] = CLI_MUST['quick']


def _cli_worker(args):
    """Runs in a freshly forked process: one real run; the event is parked in a file (the parent keeps only the path)."""
    job, path = args
    try:
        import resource       # a run-away run must fail here (MemoryError), not take the machine (and the pool) down
        resource.setrlimit(resource.RLIMIT_AS, (12 << 30, 12 << 30))
    except Exception:      # noqa
        pass
    try:
        e = run_cli_job(job)
    except Exception as exc:      # noqa
        return {'error': 'harness: %r' % (exc,), 'origin': {'source': ' '.join(job['options']), 'input': describe_input(job)}}
    if 'error' in e:
        return e
    e['features'] = sorted(cli_features(job, e))
    with open(path, 'w') as fh:
        json.dump(common.jsonable(e), fh)
    return {'path': path}


def _cli_judge(paths):
    """One TLC process on a share of the parked command-line events -> per event a summary (the event only if it fails)."""
    events = []
    for path in paths:
        with open(path) as fh:
            events.append(json.load(fh))
        os.remove(path)
    verdicts, stats = _judge(events, workers=1)
    out = []
    for e, v in zip(events, verdicts):
        out.append({'verdict': v, 'features': e['features'], 'facts': e['facts'],
                    'nontrivial': len(e['names']) >= 2 and len(system_features(None, e['names'], False)) >= 2,
                    'hash': _hash(e['scenario']), 'event': e if v != 'ok' else None,
                    'brief': {'run': e['origin']['source'], 'input': e['origin']['input'], 'names': e['names'],
                              'top_molecules': e['top']['molecules'], 'includes': e['top']['includes'], 'defines': e['top']['defines'],
                              'extra': {'kind': e['extra']['kind'], 'atomtypes': len(e['extra']['atomtypes']),
                                        'distinct_atomtypes': len(set(e['extra']['atomtypes'])), 'nbparams': len(e['extra']['nbparams'])},
                              'atoms': [len(m) for m in e['pdb']], 'read_back_errors': e.get('rb_errors', []), 'verdict': v},
                    'sample': {'kind': 'martinize2 run judged by TLC', 'origin': e['origin'], 'names': e['names'], 'top': e['top'],
                               'pdb_first_molecule': e['pdb'][0][:6], 'verdict': v}})
    return out, stats


# ----------------------------------------------------------------------------------------------------------------

def minimise_random(sc, why, rounds=8):
    """Shrink a random-system scenario: drop molecules one at a time while TLC still reports the clause on the files the
    real code writes for the smaller system; then drop the palette entries no longer used."""
    def drop(s, i):
        cand = dict(s, seq=s['seq'][:i] + s['seq'][i + 1:])
        if s.get('caller_names'):
            cand['caller_names'] = s['caller_names'][:i] + s['caller_names'][i + 1:]
        if s.get('renamings'):
            cand['renamings'] = [dict(r, perm=[p - (p > i) for p in r['perm'] if p != i]) for r in s['renamings']]
        return cand
    for _ in range(rounds):
        if len(sc['seq']) <= 1:
            break
        events = []
        for i in range(len(sc['seq'])):
            cand = drop(sc, i)
            try:
                e = run_random_scenario(cand)
            except Exception:      # noqa
                continue
            e['scenario'] = {'random': cand}
            events.append(e)
        if not events:
            break
        verdicts, _ = judge_events(events)
        keep = [e for e, v in zip(events, verdicts) if why in parts_of(v)]
        if not keep:
            break
        sc = keep[0]['scenario']['random']
    used = sorted(set(sc['seq']))
    return dict(sc, palette=[sc['palette'][i] for i in used], seq=[used.index(i) for i in sc['seq']])


def _known_ids():
    return {k['id'] for k in common.load_known() if k['property'] == PID}


def _violation(vd, ev, kind, sc, detail):
    """vd.violation, except for the driver's PENDING findings that the lead has not registered yet."""
    registered = _known_ids()
    for fid, what in PENDING.items():
        if fid in registered:
            continue
        try:
            hit = SIGNATURES[fid](kind, common.jsonable(sc))
        except Exception:      # noqa
            hit = False
        if hit:
            seen = ev.extra.setdefault('pending_findings', {})
            if fid not in seen:
                print('NOTE property=%s finding %s is not registered in known_findings.json yet (reported to the lead): %s'
                      % (PID, fid, what))
            seen[fid] = seen.get(fid, 0) + 1
            return False
    return vd.violation(kind, sc, detail)


def report(summary, ev, vd, label):
    """Violations for the failing clauses of a merged summary; smallest scenarios first, the first one minimised."""
    for why, lst in sorted(summary['kept'].items()):
        for k, e in enumerate(lst[:2]):
            if k == 0 and 'random' in e['scenario']:
                try:
                    small = minimise_random(e['scenario']['random'], why)
                    e2 = run_random_scenario(small)
                    e2['scenario'] = {'random': small}
                    if why in parts_of(judge_events([e2])[0][0]):
                        e = e2
                except Exception:      # noqa - keep the unminimised scenario
                    pass
            _violation(vd, ev, 'files-disagree', dict(e['scenario'], why=why, names=e['names'], top=e['top'],
                                                       files=e.get('files')),
                       '%s: TLC verdict on the real files: %s (%d runs with this clause)' % (label, why, summary['counts'][why]))


def run(tier, seed, ev, vd):
    quick = tier == 'quick'
    ev.rule = ('TAB: every system of <= %d molecules over each universe of molecule variants x dedup on/off x atoms sorted or '
               'not; TRACE: random larger systems with near-duplicate molecules (GRO leg, read-back, second write, re-naming '
               'in other orders, caller-given names) and real martinize2 runs with the output-shaping options on multi-chain '
               'inputs. Non-trivial = system of >= 2 molecules with >= 2 of {two molecules share a type, two different '
               'types, a type recurs after an interruption, atoms sorted, node order or atom ids not canonical}; distinct '
               'by (variants, dedup, sorted) resp. by scenario.' % MAXMOLS)
    ev.assumptions = [
        'TLC evaluates the TLA+ operators correctly; harness/indep_readers.py reads PDB / GRO columns, ITP, TOP and parameter '
        'files as the formats say',
        'system.meta["header"] is non-empty, as the command line always makes it (the topology writer indexes header[-1])',
        'not generated: SortMoleculeAtoms on molecules where only some atoms have an atom id (TypeError in Python, '
        'unspecified), empty systems (ValueError), more than 26 chains (PDB cannot label them)',
        'a name or residue number that does not fit its coordinate column (PDB: 4 / 3 / 4 characters for atom name / residue '
        'name / number, GRO: 5 each) must appear as the characters C16\'s column table lets survive (low-order digits, leading '
        'characters; either end of the right-aligned GRO atom name): that is what "same name and residue number" is taken to '
        'mean in a fixed-column file',
        'own[j] (what the ITP writer states for molecule j alone) uses the real write_molecule_itp, verified by C02',
        'martinize2 -x always writes PDB text, whatever the extension: cg.gro is read as PDB (observation, counted)',
        'the Go / water-bias parameter files are judged for agreement with the ITPs only (every virtual-site type declared, '
        'nothing declared that no molecule type uses, GO_VIRT defined exactly with the go files); their numbers are C18\'s; '
        'a type declared several times is counted as an observation (the statement does not speak about it)',
        'option clauses ("option:": -sep keeps identical chains apart, -name prefixes, numbering by first occurrence, merged '
        'chain groups in input order, -go = one molecule named by -name) go beyond the statement and are named separately',
        'caller-named systems (meta moltype set by hand, NameMolType not run): the statement speaks about the names the library '
        'gives; one name on different topologies is a broken precondition of write_gmx_topology (documented: "we use the first '
        'one"): counted as observation caller-named-clash-not-refused, a refusal would be accepted; consistent caller names '
        'are judged like any other run',
    ]
    problems = []          # vacuity / failed runs: machinery failures, raised at the end unless a violation was found anyway
    jobs = []
    for ui, (uni, maxmols) in enumerate(universes(tier, seed)):
        res = tlc.run('Output', CFG, consts=consts_of(uni, maxmols), dump=True, timeout=2400)
        if res.violated:
            raise tlc.MachineryError('Output model (universe %d) violates %s' % (ui, res.violated))
        ev.add_tlc('MC Output universe %d (%d variants, <= %d molecules)' % (ui, len(uni), maxmols), res)
        nparts = tlc.NCPU // 2 if quick else tlc.NCPU
        jobs += [(p, lo, hi, seed * 1000 + i * 100000, ui) for i, (p, lo, hi) in enumerate(_dump_ranges(res.dump_path, nparts))]
    nrand = 640 if quick else 16000
    nchunks = tlc.NCPU // 2 if quick else tlc.NCPU * 4
    cjobs = cli_jobs(tier, seed)
    park = tempfile.mkdtemp(prefix='c03cli_events_')
    # ONE pool, a fresh process per task (a command-line run must not inherit the module state of another one); the
    # command-line runs go first (longest), their TLC shards are queued as soon as all of them have returned
    try:
        with mp.Pool(NPROC, maxtasksperchild=1) as pool:
            cli_async = [pool.apply_async(_cli_worker, ((job, os.path.join(park, 'ev%04d.json' % i)),)) for i, job in enumerate(cjobs)]
            tab_async = pool.map_async(_replay_range, jobs, chunksize=1)
            rand_async = pool.map_async(_random_chunk, [(nrand // nchunks, seed * 6151 + i) for i in range(nchunks)], chunksize=1)
            ran = [a.get() for a in cli_async]
            for r in ran:
                if 'error' in r:
                    problems.append('martinize2 run failed (%s): %s' % (r['origin'], r['error']))
            shards = common.chunks([r['path'] for r in ran if 'path' in r], 4 if quick else tlc.NCPU)
            judged_async = pool.map_async(_cli_judge, shards, chunksize=1)
            outs = tab_async.get()
            rand_parts = rand_async.get()
            judged = judged_async.get()
    finally:
        shutil.rmtree(park, ignore_errors=True)
    # --- TAB
    nsys = 0
    for ui in sorted({o['universe'] for o in outs}):
        mine = [o for o in outs if o['universe'] == ui]
        n = sum(o['n'] for o in mine)
        seen = set().union(*[o['seen'] for o in mine])
        if n == 0 or len(seen) < 6:      # vacuity: (dedup: shared | none shared; no dedup) x sorted or not
            problems.append('vacuous model for universe %d: %d final states, cases %s' % (ui, n, sorted(seen)))
        nsys += n
    for o in outs:
        ev.nontrivial.update(o['nontrivial'])
        if o['sample'] and o['universe'] == 0:
            ev.sample(o['sample'], limit=1)
        for x in o['errors']:
            vd.violation('writer-raised', x['scenario'], 'real run raised %s' % x['error'])
    ev.exhaustive = True
    tab = merge_summaries([o['summary'] for o in outs])
    if tab['n'] + sum(len(o['errors']) for o in outs) != nsys:
        raise tlc.MachineryError('replayed %d systems, judged %d' % (nsys, tab['n']))
    for leg in ('gro', 'rb', 'again'):
        if tab['legs'][leg] == 0:
            problems.append('vacuous: no replayed system had the %r leg' % leg)
    ev.traces += nsys
    ev.evaluations += nsys
    ev.states += tab['tlc'][0]
    ev.transitions += tab['tlc'][1]
    ev.tlc_runs.append({'run': 'TRACE Trace_Output on the replayed systems (judged inside the workers)', 'events': tab['n'],
                        'distinct_states': tab['tlc'][0], 'states_generated': tab['tlc'][1], 'wall_s': round(tab['tlc'][2], 2),
                        'legs': tab['legs'], 'clauses_failed': tab['counts']})
    deviations = sum(o['deviations'] for o in outs)
    ev.extra['model_deviations'] = deviations
    if deviations:
        first_dev = next(o['first_dev'] for o in outs if o['first_dev'])
        print('NOTE property=C03 %d runs satisfy the statement but their files are not the ones Output.tla produces, '
              'first: %s' % (deviations, json.dumps(first_dev, default=str)[:900]))
    report(tab, ev, vd, 'replayed system')
    # --- random systems
    rnd = merge_summaries([p['summary'] for p in rand_parts])
    for p in rand_parts:
        ev.nontrivial.update(p['nontrivial'])
        for x in p['errors']:
            vd.violation('writer-raised', x['scenario'], 'real run raised %s' % x['error'])
    for leg in ('gro', 'rb', 'again', 'hist', 'caller-named', 'wide-name', 'wide-number', OBS_CLASH):
        if rnd['legs'].get(leg, 0) == 0:
            problems.append('vacuous: no random system exercised %r' % leg)
    ev.traces += rnd['n']
    ev.evaluations += rnd['n']
    ev.states += rnd['tlc'][0]
    ev.transitions += rnd['tlc'][1]
    ev.tlc_runs.append({'run': 'TRACE Trace_Output on random systems (judged inside the workers)', 'events': rnd['n'],
                        'distinct_states': rnd['tlc'][0], 'states_generated': rnd['tlc'][1], 'wall_s': round(rnd['tlc'][2], 2),
                        'legs': rnd['legs'], 'clauses_failed': rnd['counts']})
    report(rnd, ev, vd, 'random system')
    ev.extra['caller_named_clash_not_refused'] = rnd['legs'].get(OBS_CLASH, 0)
    ev.extra['caller_named_systems'] = rnd['legs'].get('caller-named', 0)
    # --- the command line
    cli = [r for part, _ in judged for r in part]
    feats = set()
    kept, counts = {}, {}
    dist, gen = sum(st[0] for _, st in judged), sum(st[1] for _, st in judged)
    wall = max([st[2] for _, st in judged] or [0.0])
    observations = {'x-holds-pdb-text': 0, 'atom-type-declared-more-than-once': 0}
    for r in cli:
        feats.update(r['features'])
        if r['nontrivial']:
            ev.nontrivial.add(r['hash'])
        observations['x-holds-pdb-text'] += bool(r['facts']['x-holds-pdb-text'])
        observations['atom-type-declared-more-than-once'] += r['brief']['extra']['atomtypes'] > r['brief']['extra']['distinct_atomtypes']
        for p in parts_of(r['verdict']):
            counts[p] = counts.get(p, 0) + 1
            kept.setdefault(p, []).append(r['event'])
    missing = CLI_MUST[tier] - feats
    if missing:
        problems.append('vacuous command-line family: never exercised %s' % sorted(missing))
    ev.states += dist
    ev.transitions += gen
    ev.traces += len(cli)
    ev.evaluations += len(cli)
    ev.tlc_runs.append({'run': 'TRACE Trace_Output on martinize2 runs (judged in shards by worker processes)', 'events': len(cli),
                        'distinct_states': dist, 'states_generated': gen, 'wall_s': round(wall, 2), 'clauses_failed': counts})
    for lst in kept.values():
        lst.sort(key=_size)
    report({'kept': kept, 'counts': counts}, ev, vd, 'recorded run')
    ev.extra['trace_events'] = {'random_systems': rnd['n'], 'cli_runs': len(cli), 'cli_features': sorted(feats),
                                'observations': observations, 'cli': [r['brief'] for r in cli]}
    if cli:
        ev.sample(cli[0]['sample'], limit=3)
    if problems:
        if not vd.violations:
            raise tlc.MachineryError('; '.join(problems))
        for p in problems:
            print('NOTE property=C03 machinery problem next to the violations: %s' % p[:600])


def replay(sc):
    if 'variants' in sc:
        variants = [dict(v, order=tuple(v['order']), aid=tuple(v['aid'])) for v in sc['variants']]
        run = run_model_system(variants, sc['dedup'], sc['sorted'], 0, ('gro', 'rb', 'again'))
        e = event_of(run, sc)
    elif 'random' in sc:
        e = run_random_scenario(sc['random'])
    else:
        job = sc['cli']
        if 'models' not in job:           # replay files written before the extension: {'chains', 'options'}
            job = J(job['chains'], job['options'])
        e = run_cli_job(job)
        if 'error' in e:
            print(e['error'])
            return 2
    print('molecule types in system order:', e['names'])
    print('top:', json.dumps(e['top']))
    print('itp files:', [f['name'] for f in e['itps']], ' parameter files:', e['extra']['kind'])
    for j, m in enumerate(e['pdb']):
        print('pdb molecule %d:' % j, [(a['name'], a['resname'], a['resid']) for a in m][:12])
    if e['gro']:
        print('gro:', [(a['name'], a['resname'], a['resid']) for a in e['gro'][0]][:24])
    verdicts, _ = judge_events([e])
    print('TLC verdict (Trace_Output!Judge) on the real files:', verdicts[0], ' recorded:', sc.get('why'))
    return 0 if verdicts[0] == 'ok' else 1


def selftest(seed):
    """Binding demonstration: files of real runs with one field tampered must be rejected with the right clause."""
    rng = random.Random(seed)

    def clean(pred, legs=(), tries=4000):
        for _ in range(tries):
            sc = random_system_scenario(rng)
            if len(sc['seq']) < 3 or sc.get('caller_names') or sc.get('renamings'):
                continue
            sc['legs'] = ['gro', 'rb'] + list(legs)
            e = run_random_scenario(sc)
            e['scenario'] = {'random': sc}
            if pred(e):
                return e
        raise tlc.MachineryError('selftest: no suitable random system found')

    two = lambda e: len(set(e['names'])) >= 2      # noqa
    batch, expect, observed = [], {}, []

    def case(e, clause):
        batch.append(e)
        if clause:
            expect[len(batch)] = clause

    case(clean(two), None)
    e = clean(two)                                 # a count changed in [ molecules ]
    e['top']['molecules'][0]['n'] += 1
    case(e, 'top-does-not-list-the-molecule-types-in-coordinate-order-with-correct-counts')
    e = clean(two)                                 # an include duplicated
    e['top']['includes'].append(e['top']['includes'][-1])
    case(e, 'molecule-type-file-not-included-exactly-once')
    e = clean(two)                                 # a coordinate record renamed
    e['pdb'][0][0] = dict(e['pdb'][0][0], name='ZZ')
    case(e, 'kth-coordinate-record-is-not-the-kth-itp-atom;readback:read_pdb-atom-differs-in-name-residue-or-order')
    shared = lambda x: len(set(x['names'])) < len(x['names'])      # noqa
    for tag, flag in (('named by NameMolType', False), ('named by the caller', True)):
        e = clean(shared)                          # a molecule whose own topology differs from the ITP it shares with another
        j = next(j for j, n in enumerate(e['names']) if e['names'].count(n) >= 2)
        recs = copy.deepcopy(e['own'][j]['recs'])
        i = next(i for i, r in enumerate(recs) if r['k'] == 'atom')
        recs[i]['p'][0] = 'OTHER'
        e['own'][j] = dict(e['own'][j], recs=recs)
        e['opt'] = dict(e['opt'], callernamed=flag)
        if flag:
            observed.append(len(batch) + 1)
            case(e, 'observation:caller-named-clash-not-refused')
        else:
            case(e, 'same-name-for-molecules-with-different-topologies')
    e = clean(lambda x: len(set(x['names'])) == len(x['names']) and len(x['names']) >= 2)
    recs = copy.deepcopy(e['own'][0]['recs'])      # ... and from the ITP written for it alone
    next(r for r in recs if r['k'] == 'atom')['p'][0] = 'OTHER'
    e['own'][0] = dict(e['own'][0], recs=recs)
    case(e, 'same-name-for-molecules-with-different-topologies')
    case(clean(two), None)
    e = clean(lambda x: sum(len(m) for m in x['pdb']) >= 4)      # two GRO records swapped
    g = e['gro'][0]
    i = next(i for i in range(len(g) - 1) if g[i] != g[i + 1])
    g[i], g[i + 1] = g[i + 1], g[i]
    case(e, 'readback:read_gro-atom-differs-in-name-residue-or-order;gro:kth-gro-record-is-not-the-kth-itp-atom')
    # the residue number of a PDB record: the wrong end of a wide number
    wide = clean(lambda x: _wide(x)['wide-number'])
    case(copy.deepcopy(wide), None)
    j, k = next((j, k) for j, m in enumerate(wide['pdb']) for k, a in enumerate(m)
                if len([r for f in wide['itps'] if f['name'] == wide['names'][j] for r in f['itp']['recs'] if r['k'] == 'atom'][k]['p'][1]) > 4)
    full = [r for f in wide['itps'] if f['name'] == wide['names'][j] for r in f['itp']['recs'] if r['k'] == 'atom'][k]['p'][1]
    wide['pdb'][j][k] = dict(wide['pdb'][j][k], resid=full[:4])
    case(wide, 'kth-coordinate-record-is-not-the-kth-itp-atom;readback:read_pdb-atom-differs-in-name-residue-or-order')
    e = clean(two)                                 # what the repository's ITP reader stored: one atom renamed
    e['rb'][0]['itps'][0]['rd']['atoms'][0]['name'] = 'QQ'
    case(e, 'readback:read_itp-reader:atom-fields-differ')
    e = clean(two)                                 # read_pdb lost the last atom of a molecule
    e['rb'][0]['pdb'][0] = e['rb'][0]['pdb'][0][:-1]
    case(e, 'readback:read_pdb-finds-another-number-of-atoms')
    e = clean(two, legs=('again',))                # the second write lists another count
    case(copy.deepcopy(e), None)
    e['again'][0]['top']['molecules'][0]['n'] += 1
    case(e, 'history:second-write-of-the-same-system-differs')
    e = clean(two)                                 # parameter files: a virtual-site type of an ITP atom that is not declared
    nm = e['names'][0]
    f = next(f for f in e['itps'] if f['name'] == nm)
    r = next(r for r in f['itp']['recs'] if r['k'] == 'atom')
    r['p'][0] = nm + '_7'
    for j, n in enumerate(e['names']):
        if n == nm:
            e['own'][j] = copy.deepcopy(f['itp'])
    e['rb'] = []
    e2 = copy.deepcopy(e)
    case(e, 'extra:virtual-site-type-of-an-itp-atom-not-declared')
    e2['extra'] = {'kind': 'go', 'atomtypes': [nm + '_7'], 'atparams': [['0.0', '0', 'A', '0.0', '0.0']],
                   'nbparams': [[nm + '_7', nm + '_8']], 'nbvalues': [['1', '0.5', '9.4']], 'malformed': []}
    case(e2, 'extra:define-GO_VIRT-does-not-go-with-the-go-files')
    e3 = copy.deepcopy(e2)
    e3['top']['defines'] = ['GO_VIRT']
    case(e3, 'extra:nonbond-params-name-an-undeclared-virtual-site-type')
    e4 = copy.deepcopy(e3)
    e4['extra']['nbparams'] = [[nm + '_7', 'W']]
    e4['extra']['atomtypes'].append(nm + '_9')
    e4['extra']['atparams'].append(['0.0', '0', 'A', '0.0', '0.0'])
    case(e4, 'extra:declared-atom-type-that-no-written-molecule-type-uses')
    e5 = copy.deepcopy(e3)
    e5['extra']['nbparams'] = [[nm + '_7', 'W'], ['W', nm + '_7']]
    e5['extra']['nbvalues'] = [['1', '0.5', '9.4'], ['1', '0.5', '9.4']]
    case(copy.deepcopy(e5), None)
    e5['extra']['nbvalues'][1] = ['1', '0.5', '2.1']                     # the same pair of types with two different strengths
    case(e5, 'extra:one-pair-of-types-given-different-nonbond-params')
    e6 = copy.deepcopy(e3)
    e6['extra']['nbparams'] = []
    e6['extra']['nbvalues'] = []
    e6['extra']['atomtypes'].append(nm + '_7')
    e6['extra']['atparams'].append(['72.0', '0', 'A', '0.0', '0.0'])     # one type declared twice, with different masses
    case(e6, 'extra:one-atom-type-declared-with-different-parameters')
    # re-naming history: a run in which the partition depends on the order / a shared name without deduplication
    for _ in range(4000):
        sc = random_system_scenario(rng)
        if sc.get('renamings') and len(sc['seq']) >= 3 and not any('atomid' in a for p in sc['palette'] for a in p['atoms']):
            e = run_random_scenario(sc)
            dd = [h for h in e['hist'] if h['dedup']]
            if len(dd) >= 2 and len(set(e['names'])) < len(e['names']) and len(set(dd[1]['names'])) >= 2:
                break
    else:
        raise tlc.MachineryError('selftest: no re-naming history found')
    e['scenario'] = {'random': sc}
    case(copy.deepcopy(e), None)
    h = next(h for h in e['hist'] if h['dedup'] and len(set(h['names'])) < len(h['names']))
    a = h['names'][0]
    b = next(n for n in h['names'] if n != a)
    h['names'] = [b if n == a else (a if n == b else n) for n in h['names']]           # consistent swap: numbering broken
    case(e, 'history:names-are-not-prefix_k-numbered-by-first-occurrence')
    e = copy.deepcopy(batch[-2])                   # one of the orders keeps apart what the others share
    h = next(h for h in e['hist'] if h['dedup'] and len(set(h['names'])) < len(h['names']))
    h['names'] = ['%s_%d' % (e['opt']['molname'], i) for i in range(len(h['names']))]
    case(e, 'history:which-molecules-share-a-type-depends-on-their-order')
    e = copy.deepcopy(batch[-3])                   # a name shared although deduplication was off
    e['hist'].append({'perm': list(range(1, len(e['names']) + 1)), 'dedup': False,
                      'names': ['%s_0' % e['opt']['molname']] * len(e['names'])})
    case(e, 'history:names-shared-without-deduplication')
    e = copy.deepcopy(batch[-4])                   # a name shared by molecules whose topologies differ, in one order only
    h = next(h for h in e['hist'] if h['dedup'] and len(set(h['names'])) >= 2)
    h['names'] = ['%s_0' % e['opt']['molname']] * len(h['names'])
    case(e, 'history:same-name-for-molecules-with-different-topologies')
    # option clauses on a (cheap) synthetic command-line description
    e = clean(lambda x: len(set(x['names'])) < len(x['names']) and x['opt']['molname'] == 'molecule')
    e['opt'] = dict(e['opt'], judged=True, sep=True)
    case(e, 'option:sep-given-but-molecules-share-a-type')
    e = clean(two)
    e['opt'] = dict(e['opt'], judged=True, molname='other')
    case(e, 'option:names-are-not-prefix_k-numbered-by-first-occurrence')
    e = clean(lambda x: len(x['names']) >= 3)
    labs = [sorted({a['chain'] for a in m})[0] for m in e['pdb']]
    if len(set(labs)) == len(labs):
        e['opt'] = dict(e['opt'], judged=True, chains=labs, merge=[[labs[0], labs[2]]])
        case(e, 'option:molecules-are-not-the-requested-chain-groups-in-input-order')
    # caller-named: a refusal of consistent names
    e = clean(two)
    e['refused'] = True
    case(e, 'writer-refused-a-system-whose-names-are-consistent')
    verdicts, _ = judge_events(batch)
    for i, v in enumerate(verdicts, 1):
        assert v == expect.get(i, 'ok'), (i, v, expect.get(i))
    print('selftest C03 (TRACE): %d tampered recordings rejected, each with its clause: %s; the other %d runs accepted; '
          'a clash among caller-given names is the observation, the same clash among names NameMolType gave the violation'
          % (len(expect) - len(observed), sorted({c for i, v in expect.items() if i not in observed for c in v.split(';')}),
             len(batch) - len(expect)))
    # TAB binding: the model's expectation for one system vs the real files, then with one expected name flipped
    uni = universes('quick', seed)[0][0]
    res = tlc.run('Output', CFG, consts=consts_of(uni[:3], 3), dump=True)
    st = next(s for s in res.states() if s['pc'] == 'done' and len(s['sys']) == 3 and s['dedup'] and len(set(s['ids'])) == 2)
    variants = [dict(v, order=tuple(v['order']), aid=tuple(v['aid'])) for v in itpw.norm(st['sys'])]
    run = run_model_system(variants, st['dedup'], st['sorted'], 1)
    e = event_of(run, {})
    exp = model_expect(st)
    assert model_view(e) == exp, (model_view(e), exp)
    exp['molecules'][0][1] += 1
    assert model_view(e) != exp
    print('selftest C03 (TAB): real files equal the files of Output.tla for ids %s; after flipping one expected count they differ'
          % (list(st['ids']),))
    return 0
