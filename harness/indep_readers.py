"""Independent text readers for the files vermouth writes: GROMACS .itp / .top, PDB, GRO.

Written from the file-format descriptions (GROMACS reference manual, "Topology file formats" / "File formats:
gro"; wwPDB format 3.3, Coordinate section), NOT from vermouth: this module imports nothing from /repo and
shares no code with vermouth.gmx.itp_read / vermouth.pdb.pdb / vermouth.gmx.gro.  It only turns text into
*abstract records*; what the records mean for the properties (C02: spec/ItpWrite.tla Read/Canon, C03:
spec/Trace_Output.tla) is decided by TLC.

Abstract ITP records (uniform shape, JSON-able, every value a string / list of ints / list of strings):
    {'k': 'section', 's': name,     'a': [],        'p': []}
    {'k': 'atom',    's': '',       'a': [nr],      'p': [type, resnr, residue, atom, cgnr, (charge, (mass, ...))]}
    {'k': 'inter',   's': comment,  'a': [indices], 'p': [parameters]}     atoms/parameters split by the section's
                                                                          arity in the GROMACS manual
    {'k': 'ifdef' | 'ifndef', 's': macro, ...}   {'k': 'else'}   {'k': 'endif'}
    {'k': 'comment', 's': text}                  a line holding only a ';' comment
    {'k': 'malformed', 's': raw line}            a line that does not fit its section
"""
import re

# number of leading atom indices per directive (GROMACS manual, table "The topology (*.top) file", column "# at.")
NATOMS = {
    'bonds': 2, 'pairs': 2, 'pairs_nb': 2, 'angles': 3, 'dihedrals': 4, 'constraints': 2, 'settles': 1,
    'virtual_sites1': 2, 'virtual_sites2': 3, 'virtual_sites3': 4, 'virtual_sites4': 5,
    'dummies2': 3, 'dummies3': 4, 'dummies4': 5,
    'position_restraints': 1, 'distance_restraints': 2, 'dihedral_restraints': 4, 'orientation_restraints': 2,
    'angle_restraints': 4, 'angle_restraints_z': 2, 'cmap': 5, 'polarization': 2, 'water_polarization': 5,
    'thole_polarization': 4,
}
ALL_ATOMS = {'exclusions'}              # every token is an atom index
SITE_N = {'virtual_sitesn', 'dummiesn'}   # site, function type, then the constructing atoms

_INT = re.compile(r'^[+-]?\d+$')
_SECTION = re.compile(r'^\[\s*([^\]\s]+)\s*\]$')


def _rec(k, s='', a=(), p=()):
    return {'k': k, 's': s, 'a': list(a), 'p': list(p)}


def _logical_lines(text):
    """Join lines ending in a backslash (GROMACS line continuation)."""
    buf = ''
    for raw in text.split('\n'):
        raw = raw.rstrip('\r')
        if raw.endswith('\\'):
            buf += raw[:-1] + ' '
            continue
        yield buf + raw
        buf = ''
    if buf:
        yield buf


def _split_comment(line):
    pos = line.find(';')
    if pos < 0:
        return line.strip(), None
    return line[:pos].strip(), line[pos + 1:].strip()


def read_itp(text):
    """Parse the text of one molecule-type file.  Returns
    {'moltype': str|None, 'nrexcl': str|None, 'records': [...], 'includes': [...], 'defines': [[name, value]...]}"""
    out = {'moltype': None, 'nrexcl': None, 'records': [], 'includes': [], 'defines': []}
    recs = out['records']
    section = None
    for line in _logical_lines(text):
        body, comment = _split_comment(line)
        if not body:
            if comment is not None and section not in (None, 'moleculetype'):
                recs.append(_rec('comment', comment))
            continue
        if body.startswith('#'):
            toks = body[1:].split()
            directive = toks[0] if toks else ''
            if directive in ('ifdef', 'ifndef') and len(toks) == 2:
                recs.append(_rec(directive, toks[1]))
            elif directive in ('else', 'endif') and len(toks) == 1:
                recs.append(_rec(directive))
            elif directive == 'define' and len(toks) >= 2:
                out['defines'].append([toks[1], ' '.join(toks[2:])])
                # a #define inside the header guard written by vermouth belongs to the file, not to a section
                if section is not None:
                    recs.append(_rec('define', toks[1], p=toks[2:]))
            elif directive == 'include' and len(toks) == 2:
                out['includes'].append(toks[1].strip('"<>'))
            else:
                recs.append(_rec('malformed', body))
            continue
        m = _SECTION.match(body)
        if m:
            section = m.group(1)
            if section != 'moleculetype':
                recs.append(_rec('section', section))
            continue
        toks = body.split()
        if section is None:
            recs.append(_rec('malformed', body))
        elif section == 'moleculetype':
            if len(toks) == 2 and out['moltype'] is None:
                out['moltype'], out['nrexcl'] = toks
            else:
                recs.append(_rec('malformed', body))
        elif section == 'atoms':
            # nr type resnr residue atom cgnr [charge [mass [typeB chargeB massB]]]
            if len(toks) >= 6 and _INT.match(toks[0]):
                recs.append(_rec('atom', '', [int(toks[0])], toks[1:]))
            else:
                recs.append(_rec('malformed', body))
        elif section in SITE_N:
            if len(toks) >= 2 and _INT.match(toks[0]) and all(_INT.match(t) for t in toks[2:]):
                recs.append(_rec('inter', comment or '', [int(toks[0])] + [int(t) for t in toks[2:]], [toks[1]]))
            else:
                recs.append(_rec('malformed', body))
        elif section in ALL_ATOMS:
            if all(_INT.match(t) for t in toks):
                recs.append(_rec('inter', comment or '', [int(t) for t in toks], []))
            else:
                recs.append(_rec('malformed', body))
        elif section in NATOMS:
            n = NATOMS[section]
            if len(toks) >= n and all(_INT.match(t) for t in toks[:n]):
                recs.append(_rec('inter', comment or '', [int(t) for t in toks[:n]], toks[n:]))
            else:
                recs.append(_rec('malformed', body))
        else:
            # a directive GROMACS does not know: keep the line, atoms = the leading integers
            n = 0
            while n < len(toks) and _INT.match(toks[n]):
                n += 1
            recs.append(_rec('inter', comment or '', [int(t) for t in toks[:n]], toks[n:]))
    return out


def read_itp_prologue(text):
    """The lines of a molecule-type file BEFORE the first directive header, as abstract records (same shape as read_itp):
    #ifdef / #ifndef / #else / #endif, {'k': 'define', 's': name, 'p': value tokens}, anything else that is not a
    comment or blank -> 'malformed'.  (read_itp keeps only the list of defines of this part of the file.)"""
    recs = []
    for line in _logical_lines(text):
        body, _comment = _split_comment(line)
        if not body:
            continue
        if _SECTION.match(body):
            break
        if body.startswith('#'):
            toks = body[1:].split()
            directive = toks[0] if toks else ''
            if directive in ('ifdef', 'ifndef') and len(toks) == 2:
                recs.append(_rec(directive, toks[1]))
            elif directive in ('else', 'endif') and len(toks) == 1:
                recs.append(_rec(directive))
            elif directive == 'define' and len(toks) >= 2:
                recs.append(_rec('define', toks[1], p=toks[2:]))
            else:
                recs.append(_rec('malformed', body))
        else:
            recs.append(_rec('malformed', body))
    return recs


def read_top(text):
    """Parse a system topology: the #include list (in order), #defines, the [ system ] title and the
    [ molecules ] list (in order).  Included files are not opened."""
    out = {'includes': [], 'defines': [], 'title': None, 'molecules': [], 'malformed': [], 'sections': []}
    section = None
    for line in _logical_lines(text):
        body, _comment = _split_comment(line)
        if not body:
            continue
        if body.startswith('#'):
            toks = body[1:].split(None, 1)
            directive = toks[0] if toks else ''
            arg = toks[1].strip() if len(toks) > 1 else ''
            if directive == 'include':
                out['includes'].append(arg.strip('"<>'))
            elif directive == 'define':
                out['defines'].append(arg)
            elif directive in ('ifdef', 'ifndef', 'else', 'endif', 'undef'):
                out['malformed'].append(body)     # never written by the system-topology writer
            else:
                out['malformed'].append(body)
            continue
        m = _SECTION.match(body)
        if m:
            section = m.group(1)
            out['sections'].append(section)
            continue
        if section == 'system':
            if out['title'] is None:
                out['title'] = body
            else:
                out['malformed'].append(body)
        elif section == 'molecules':
            toks = body.split()
            if len(toks) == 2 and _INT.match(toks[1]):
                out['molecules'].append([toks[0], int(toks[1])])
            else:
                out['malformed'].append(body)
        else:
            out['malformed'].append(body)
    return out


def read_pdb(text):
    """Coordinate section of a PDB file by fixed columns (wwPDB 3.3):
    ATOM/HETATM: serial 7-11, name 13-16, altLoc 17, resName 18-20, chainID 22, resSeq 23-26, iCode 27,
    x 31-38, y 39-46, z 47-54.  TER closes a chain/molecule.  CONECT: serials in 5-wide fields from column 7.
    Returns {'molecules': [[atom, ...], ...], 'conect': [[serial, partner...]...], 'ter': n}; atoms are dicts."""
    molecules, current, conect = [], [], []
    nter = 0
    for line in text.split('\n'):
        tag = line[:6].rstrip()
        if tag in ('ATOM', 'HETATM'):
            line = line.ljust(80)
            current.append({
                'serial': line[6:11].strip(), 'name': line[12:16].strip(), 'altloc': line[16].strip(),
                'resname': line[17:20].strip(), 'chain': line[21].strip(), 'resid': line[22:26].strip(),
                'icode': line[26].strip(), 'x': line[30:38].strip(), 'y': line[38:46].strip(), 'z': line[46:54].strip(),
            })
        elif tag == 'TER':
            molecules.append(current)
            current = []
            nter += 1
        elif tag == 'CONECT':
            fields = [line[i:i + 5].strip() for i in range(6, len(line.rstrip()), 5)]
            conect.append([int(f) for f in fields if f])
        elif tag in ('END', 'ENDMDL'):
            if tag == 'END':
                break
    if current:
        molecules.append(current)
    return {'molecules': molecules, 'conect': conect, 'ter': nter}


def read_gro(text):
    """GRO by fixed columns: resnr 1-5, resname 6-10, atomname 11-15, atomnr 16-20, then x y z (8.3 each)."""
    lines = text.split('\n')
    title = lines[0] if lines else ''
    natoms = int(lines[1].strip())
    atoms = []
    for line in lines[2:2 + natoms]:
        atoms.append({'resid': line[0:5].strip(), 'resname': line[5:10].strip(), 'name': line[10:15].strip(),
                      'serial': line[15:20].strip(), 'x': line[20:28].strip(), 'y': line[28:36].strip(),
                      'z': line[36:44].strip()})
    box = lines[2 + natoms].split() if len(lines) > 2 + natoms else []
    return {'title': title, 'atoms': atoms, 'box': box}


def read_param_file(text):
    """A parameter include file holding [ atomtypes ] and / or [ nonbond_params ] (GROMACS manual, "Topology file",
    directives of the parameter level): per [ atomtypes ] line the NAME (first column), per [ nonbond_params ] line the two
    type names (first two columns); atparams / nbvalues hold the remaining columns of the same lines.  #ifdef / #ifndef / #endif lines are listed, anything else that fits no directive is
    'malformed'.  Added for C03 (go_atomtypes.itp, go_nbparams.itp, virtual_sites_*.itp); shares nothing with vermouth."""
    out = {'sections': [], 'atomtypes': [], 'atparams': [], 'nbparams': [], 'nbvalues': [], 'conditions': [], 'malformed': []}
    section = None
    for line in _logical_lines(text):
        body, _comment = _split_comment(line)
        if not body:
            continue
        if body.startswith('#'):
            toks = body[1:].split()
            if toks and toks[0] in ('ifdef', 'ifndef', 'endif', 'else'):
                out['conditions'].append(toks)
            else:
                out['malformed'].append(body)
            continue
        m = _SECTION.match(body)
        if m:
            section = m.group(1)
            out['sections'].append(section)
            continue
        toks = body.split()
        if section == 'atomtypes' and len(toks) >= 6:
            # name [bonded type [at. number]] mass charge ptype V W: at least six columns
            out['atomtypes'].append(toks[0])
            out['atparams'].append(toks[1:])
        elif section == 'nonbond_params' and len(toks) >= 5:
            # i j func V W
            out['nbparams'].append([toks[0], toks[1]])
            out['nbvalues'].append(toks[2:])
        else:
            out['malformed'].append(body)
    return out
