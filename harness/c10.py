"""C10 - guessed bonds obey the stated criteria and never split or lose residues.

spec/Bonds.tla        residue identity, name-based edges / non-edges, six-conjunct distance rule in integer arithmetic
                      (Bondi table in pm IN the spec), molecule split on the residue graph; every operator takes a
                      variant (= the property with one clause dropped) so that TLC itself says which clauses an input
                      decides (Sensitive);  TAB model: all 3-atom systems on a line                         (TAB)
spec/Trace_Bonds.tla  TLC judges recorded runs of the real MakeBonds.run_system, names the broken clause  (TRACE)

spec -> code: every state of the TAB model is an (input, expected result) pair replayed into the real
MakeBonds.run_system (real System / Molecule / ForceField / Block objects, shuffled node keys and insertion order).
code -> spec: generator families build systems of 2-14 atoms on a 10 pm lattice in which ONE clause of the statement
is meant to be the deciding factor; the real code runs, the result is recorded and judged by TLC, and TLC reports
for every input the set of dropped-clause variants it distinguishes; the evidence counts, per family, the cases in
which the family's clause is decisive / the sole decider.  Python never computes an expected bond: it aims inputs
at thresholds using the radius table EXPORTED BY TLC from the spec, and filters out inputs on a threshold.

Extension (see DESIGN 9.2): (1) REAL STRUCTURES - harness/c10_real.py drives read_system of bin/martinize2 and the real
MakeBonds on the structures of the test-suite with every option; spec/BondsRead.tla specifies the reading front end
(molecules by TER / ENDMDL / END, MODEL selection, alternate locations, exclusions, CONECT bonds and merges), Bonds.tla has
an arrangement of the SAME criteria for thousands of atoms (FastOutC; the TAB model and every small trace check it against
the declarative form).  (2) HISTORY - a second MakeBonds run on the result, runs after atoms were removed, input molecules
that touch, coinciding residue identities in different input molecules, at both scales.  (3) TAB model widened: every
ordered pair of elements of the radius table just inside / just outside the threshold for fudge factors below and above 1,
pairs exactly ON the threshold (the statement's "within" puts them inside: OnThresholdInside; replayed as an observation),
a middle atom the block does not know.  The atoms of every resulting molecule must be listed in input order.
Workers generate, run AND judge their share and return summaries; the parent never holds the events of a tier.

Float -> integer: coordinates are integer pm (multiples of 10) handed to vermouth as nm floats; a recorded
'distance' d (nm) is turned into round((1000 d)^2) pm^2 and must be within 1e-6 relative of that integer (else -1,
which the judge rejects)."""
import hashlib
import json
import logging
import os
import math
import multiprocessing as mp
import random
import re
import shutil

from . import common, tlc

PID = 'C10'
INVARIANTS = ('Partition ResiduesWhole MolConnected MolMaximal InputMolsNeverFused OldKept NameExact '
              'GuessedObeyCriteria NothingWithoutMode OpIsDecl DistOnlyOnNew FastIsDecl OnThresholdInside TableBounded').split()
TAB_CFG = 'SPECIFICATION Spec\n' + ''.join('INVARIANT %s\n' % i for i in INVARIANTS)
TBL_CFG = 'INIT TblInit\nNEXT Next\n'
TRACE_CFG = 'SPECIFICATION Spec\n'
JVM_SHORT = '-XX:TieredStopAtLevel=1 -XX:ParallelGCThreads=2'
EMPTY = {'Els': '{}', 'XPairs': '{}', 'Fudges': '{}', 'NameTriples': '{}', 'ResnameTriples': '{}', 'MolTriples': '{}',
         'ResidTriples': '{}', 'OldChoices': '{}', 'Modes': '{}', 'SweepEls': '{}', 'SweepFudges': '{}'}
ALL_ELS = '{"H","D","He","C","N","O","F","Ne","Si","P","S","Cl","Ar","As","Se","Br","Kr","Te","I","Xe","X"}'
TAB_CONSTS = {
    'quick': {
        'Els': '{"H","C","X"}',
        'XPairs': '{<<100,200>>, <<130,400>>}',
        'ResidTriples': '{<<1,1,1>>,<<1,1,2>>,<<1,2,1>>}',
        'MolTriples': '{<<0,0,0>>,<<0,0,1>>}',
        'ResnameTriples': '{<<"R","R","R">>,<<"U","U","U">>}',
        'NameTriples': '{<<"A","B","C">>,<<"A","C","B">>,<<"A","B","A">>,<<"A","Z","C">>}',
        'OldChoices': '{<<>>, << <<1,2>> >>}',
        'Modes': '{<<TRUE,TRUE>>,<<TRUE,FALSE>>,<<FALSE,TRUE>>,<<FALSE,FALSE>>}',
        'Fudges': '{<<6,5>>}',
        'SweepEls': ALL_ELS,
        'SweepFudges': '{<<1,1>>,<<9,10>>,<<6,5>>}',
    },
    'thorough': {
        'Els': '{"H","C","X"}',
        'XPairs': '{<<100,200>>, <<150,300>>, <<110,120>>}',
        'ResidTriples': '{<<1,1,1>>,<<1,1,2>>,<<1,2,1>>,<<1,2,3>>}',
        'MolTriples': '{<<0,0,0>>,<<0,0,1>>,<<0,1,0>>,<<0,1,2>>}',
        'ResnameTriples': '{<<"R","R","R">>,<<"U","U","U">>,<<"R","R","U">>}',
        'NameTriples': '{<<"A","B","C">>,<<"A","C","B">>,<<"A","B","A">>,<<"C","-","Z">>,<<"A","Z","C">>}',
        'OldChoices': '{<<>>, << <<1,2>> >>, << <<3,2>>, <<1,2>> >>}',
        'Modes': '{<<TRUE,TRUE>>,<<TRUE,FALSE>>,<<FALSE,TRUE>>,<<FALSE,FALSE>>}',
        'Fudges': '{<<6,5>>,<<9,10>>}',
        'SweepEls': ALL_ELS + ' \\cup {"Xx", "SE", "CL"}',
        'SweepFudges': '{<<1,1>>,<<9,10>>,<<6,5>>,<<4,5>>,<<1,2>>,<<3,2>>,<<13,10>>,<<19,20>>,<<5,4>>}',
    },
}
# variants that only say "the result has several molecules / a single-atom molecule": sensitive on almost every input,
# therefore not counted against a family's clause being the sole decider (except in their own families)
SHAPE = {'allone', 'lose-isolated'}
# dropping / loosening the distance conjunct: distinguished by every input with two atoms out of bonding range
FAR = ['within', 'loose', 'se1900']
FUDGES = [(1, 1), (6, 5), (13, 10), (11, 10), (3, 2), (5, 4)]
FUDGES_LT1 = [(9, 10), (4, 5), (1, 2), (19, 20)]
UNKNOWN_ELS = ['X', 'Xx', 'Q', '', '-']
HEAVY = ['C', 'N', 'O', 'S', 'P', 'Se']


# ---------------------------------------------------------------------------------------------- real code
def _quiet():
    logging.disable(logging.CRITICAL)


def conv_d2(dist):
    try:
        x = float(dist) * 1000.0
    except Exception:
        return -1
    d2 = x * x
    if not math.isfinite(d2):
        return -1
    n = round(d2)
    if abs(d2 - n) > 1e-6 * max(1.0, n) or n > 2000000000:
        return -1
    return int(n)


def build_system(s, rng, ordered=None):
    """Real vermouth objects for the abstract system s -> (System, atoms in the order MakeBonds will receive them)."""
    import numpy as np
    from vermouth.forcefield import ForceField
    from vermouth.molecule import Molecule, Block
    from vermouth.system import System
    ff = ForceField(name='verif_c10')
    for b in s['blocks']:
        blk = Block(force_field=ff)
        blk.name = b['resname']
        order = list(enumerate(b['names']))
        rng.shuffle(order)
        for k, nm in order:
            blk.add_node(k, atomname=nm, resname=b['resname'])
        idx = {nm: k for k, nm in enumerate(b['names'])}
        for n1, n2 in b['edges']:
            blk.add_edge(idx[n1], idx[n2])
        ff.blocks[b['resname']] = blk
    system = System(force_field=ff)
    if ordered is None:
        ordered = rng.random() < 0.4
    molids = sorted({a['mol'] for a in s['atoms']})
    if not ordered:
        rng.shuffle(molids)
    key_of = {}
    inorder = []
    for mi in molids:
        members = [i for i, a in enumerate(s['atoms'], 1) if a['mol'] == mi]
        if ordered:
            base = rng.choice([0, 0, 3])
            keys = [base + k * rng.choice([1, 1, 2]) for k in range(len(members))]
            keys = sorted(set(keys))
            while len(keys) < len(members):
                keys.append(keys[-1] + 1)
        else:
            keys = rng.sample(range(0, 3 * len(members) + 2), len(members))
        mol = Molecule()
        todo = list(zip(members, keys))
        if not ordered:
            rng.shuffle(todo)
        for i, key in todo:
            a = s['atoms'][i - 1]
            attrs = {'tag': i}
            if a['chain'] != '-':
                attrs['chain'] = a['chain']
            if a['resid'] != -1:
                attrs['resid'] = a['resid']
            if a['icode'] != '-':
                attrs['insertion_code'] = a['icode']
            if a['resname'] != '-':
                attrs['resname'] = a['resname']
            if a['name'] != '-':
                attrs['atomname'] = a['name']
            if a['el'] != '-':
                attrs['element'] = a['el']
            pos = [a['x'] / 1000.0, a['y'] / 1000.0, a['z'] / 1000.0]
            attrs['position'] = np.array(pos) if rng.random() < 0.8 else pos
            mol.add_node(key, **attrs)
            key_of[i] = (mi, key)
            inorder.append(i)
        for i, j in s['old']:
            if s['atoms'][i - 1]['mol'] == mi:
                mol.add_edge(key_of[i][1], key_of[j][1], verif_old=True)
        system.add_molecule(mol)
    return system, inorder


def apply_makebonds(system, s, inorder, rng):
    """the real MakeBonds.run_system on `system`; the result projected: molecules in NODE ORDER, bonds"""
    from vermouth.processors import MakeBonds
    fudge = s['fn'] / s['fd'] if (s['fd'] != 1 or rng.random() < 0.5) else s['fn']
    got = {'err': False, 'mols': [], 'edges': [], 'inorder': list(inorder)}
    try:
        MakeBonds(allow_name=s['name'], allow_dist=s['dist'], fudge=fudge).run_system(system)
        for m in system.molecules:
            tag = {n: d.get('tag', 0) for n, d in m.nodes(data=True)}
            got['mols'].append(list(tag.values()))
            for u, v, d in m.edges(data=True):
                got['edges'].append({'a': tag[u], 'b': tag[v], 'hasd': 'distance' in d,
                                     'd2': conv_d2(d['distance']) if 'distance' in d else 0,
                                     'old': d.get('verif_old') is True})
    except Exception as exc:   # the real code must not fail on a well-specified input
        got = {'err': True, 'mols': [], 'edges': [], 'inorder': list(inorder), 'exc': repr(exc)[:300]}
    return got


def run_real(s, rng, ordered=None, keep=False):
    """Build real vermouth objects for the abstract system s, run MakeBonds.run_system, project the result."""
    system, inorder = build_system(s, rng, ordered)
    got = apply_makebonds(system, s, inorder, rng)
    return (got, system) if keep else got


def project_live(system, prev, name, dist, fu):
    """HISTORY: the abstract form of a live system (result of an earlier run, possibly edited): atoms re-tagged 1..n in the
    order MakeBonds will receive them, every bond present is an input bond of the next run."""
    atoms, old = [], []
    i = 0
    for mi, mol in enumerate(system.molecules):
        for key, d in mol.nodes(data=True):
            i += 1
            d['tag'] = i
            pos = d['position']
            atoms.append({'mol': mi, 'chain': d.get('chain', '-'), 'resid': d.get('resid', -1), 'icode': d.get('insertion_code', '-'),
                          'resname': d.get('resname', '-'), 'name': d.get('atomname', '-'), 'el': d.get('element', '-'),
                          'x': int(round(float(pos[0]) * 1000)), 'y': int(round(float(pos[1]) * 1000)),
                          'z': int(round(float(pos[2]) * 1000))})
        for u, v, ed in mol.edges(data=True):
            ed['verif_old'] = True
            ed.pop('distance', None)
            old.append([mol.nodes[u]['tag'], mol.nodes[v]['tag']])
    return {'atoms': atoms, 'old': old, 'blocks': prev['blocks'], 'name': bool(name), 'dist': bool(dist), 'fn': fu[0], 'fd': fu[1]}


def tla_sys(st_sys):
    """dumped TLA+ system -> the JSON form"""
    return {'atoms': [dict(a) for a in st_sys['atoms']], 'old': [list(p) for p in st_sys['old']],
            'blocks': [{'resname': b['resname'], 'names': list(b['names']), 'edges': [list(e) for e in b['edges']]}
                       for b in st_sys['blocks']],
            'name': st_sys['name'], 'dist': st_sys['dist'], 'fn': st_sys['fn'], 'fd': st_sys['fd']}


def _norm(a, b):
    return (a, b) if a < b else (b, a)


def iter_dump(path, k, n):
    """stream the states of a TLC dump file whose header starts in the k-th of n equal byte ranges of the file (every state
    is yielded by exactly one k; the parent never parses the dump)"""
    size = os.path.getsize(path)
    start, end = size * k // n, size * (k + 1) // n
    body = None
    with open(path, 'rb') as fh:
        fh.seek(start)
        pos = start
        for raw in fh:
            here = pos
            pos += len(raw)
            if raw.startswith(b'State ') and raw.rstrip().endswith(b':'):
                if body is not None:
                    yield ''.join(body)
                    body = None
                if here >= end:
                    return
                body = []
            elif body is not None:
                body.append(raw.decode())
        if body is not None:
            yield ''.join(body)


def _exact_threshold(s):
    """On-threshold inputs whose floating-point evaluation is exact in IEEE-754 double arithmetic, so that the statement's
    "within" (<=) is decidable for the implementation too: two atoms of the SAME element, the first at the origin, the second
    on the x axis, fudge factor 1: distance = sqrt(x*x) = x and threshold = 0.5 * (r + r) * 1 = r are the same double."""
    at = s['atoms']
    return (len(at) == 2 and s['fn'] == 1 and s['fd'] == 1 and at[0]['el'] == at[1]['el']
            and (at[0]['x'], at[0]['y'], at[0]['z'], at[1]['y'], at[1]['z']) == (0, 0, 0, 0, 0))


def _replay_chunk(args):
    """TAB states -> real MakeBonds.run_system; the worker reads its share of the dump itself and returns a summary"""
    from . import tlaval
    path, k, n, seed = args
    _quiet()
    rng = random.Random(seed)
    out = {'n': 0, 'bad': [], 'tab_sens': {}, 'nontrivial': set(), 'sample': None, 'seen': 0, 'pending': 0,
           'near': {'states': 0, 'bonds_expected': 0, 'bonds_made': 0, 'agree': 0}}
    for body in iter_dump(path, k, n):
        out['seen'] += 1
        if 'sens = {"pending"}' in body:
            out['pending'] += 1
            continue
        st = tlaval.parse_state_body(body)
        s = tla_sys(st['sys'])
        exp = st['out']
        for x in st['sens']:
            out['tab_sens'][x] = out['tab_sens'].get(x, 0) + 1
        got = run_real(s, rng)
        if exp['near'] and _exact_threshold(s):
            out['near']['judged_exact'] = out['near'].get('judged_exact', 0) + 1      # falls through to the comparison
        elif exp['near']:
            # a pair exactly ON the threshold: the statement says bonded (the model checks that); what the floating-point
            # code does is an observation, not a verdict
            ne = len(exp['edges'])
            ng = len({_norm(e['a'], e['b']) for e in got['edges']})
            o = out['near']
            o['states'] += 1
            o['bonds_expected'] += ne
            o['bonds_made'] += ng
            o['agree'] += ne == ng
            continue
        if set(st['sens']) - SHAPE:
            out['nontrivial'].add(hashlib.sha1(json.dumps(common.jsonable(st['sys']), sort_keys=True).encode()).hexdigest()[:16])
        out['n'] += 1
        why = None
        if got['err']:
            why = 'exception ' + got.get('exc', '')
        else:
            gm = {frozenset(m) for m in got['mols']}
            ge = {_norm(e['a'], e['b']) for e in got['edges']}
            gd = {_norm(e['a'], e['b']) + (e['d2'],) for e in got['edges'] if e['hasd']}
            go = {_norm(e['a'], e['b']) for e in got['edges'] if e['old']}
            if sum(len(m) for m in got['mols']) != len(s['atoms']):
                why = 'atoms lost or duplicated'
            elif ge != set(exp['edges']):
                why = 'bonds differ: real %s, TLC %s' % (sorted(ge), sorted(exp['edges']))
            elif gd != set(exp['dist']):
                why = 'distance attributes differ: real %s, TLC %s' % (sorted(gd), sorted(exp['dist']))
            elif gm != set(exp['mols']):
                why = 'molecules differ: real %s, TLC %s' % (sorted(map(sorted, gm)), sorted(map(sorted, exp['mols'])))
            elif not {_norm(i, j) for i, j in s['old']} <= go:
                why = 'input bond lost its attributes'
        if why and len(out['bad']) < 5:
            out['bad'].append(({'kind': 'tab', 'sys': s, 'expected': common.jsonable(exp), 'got': got}, why))
        elif why:
            out['bad'].append((None, why))
        if out['sample'] is None and len(exp['dist']) >= 1 and len(exp['mols']) >= 2:
            out['sample'] = common.jsonable(st)
    return out


# ---------------------------------------------------------------------------------------------- generators
class Scene:
    def __init__(self):
        self.atoms, self.old, self.blocks = [], [], []

    def add(self, el, pos, resid=1, resname='UNK', name='-', mol=0, chain='A', icode=''):
        self.atoms.append({'mol': mol, 'chain': chain, 'resid': resid, 'icode': icode, 'resname': resname,
                           'name': name, 'el': el, 'x': pos[0], 'y': pos[1], 'z': pos[2]})
        return len(self.atoms)

    def block(self, resname, names, edges):
        self.blocks.append({'resname': resname, 'names': list(names), 'edges': [list(e) for e in edges]})

    def pos(self, i):
        a = self.atoms[i - 1]
        return (a['x'], a['y'], a['z'])


def vec(rng, lo, hi):
    """lattice vector (multiples of 10 pm) of length within [lo, hi]"""
    if hi <= 0:
        return [0, 0, 0]
    m = int(hi // 10)
    for _ in range(20000):
        x, y = rng.randint(-m, m) * 10, rng.randint(-m, m) * 10
        rest_hi = hi * hi - x * x - y * y
        if rest_hi < 0:
            continue
        rest_lo = max(0.0, lo * lo - x * x - y * y)
        zs = [z for z in range(int(math.sqrt(rest_lo) // 10) * 10, int(math.sqrt(rest_hi)) + 1, 10)
              if rest_lo <= z * z <= rest_hi]
        if not zs:
            continue
        v = [x, y, rng.choice(zs) * rng.choice([1, -1])]
        rng.shuffle(v)
        return v
    raise tlc.MachineryError('no lattice vector of length in [%s, %s]' % (lo, hi))


def plus(p, v):
    return (p[0] + v[0], p[1] + v[1], p[2] + v[2])


def origin(rng):
    return tuple(rng.randrange(-30, 31) * 10 for _ in range(3))


class Gen:
    """Generator families.  R = radius table exported by TLC from the spec (pm); used only to AIM."""

    def __init__(self, R):
        self.R = R
        self.known = sorted(R)

    def rad(self, el):
        return self.R.get(el, 120)

    def thr(self, e1, e2, fu):
        return fu[0] * (self.rad(e1) + self.rad(e2)) / (2.0 * fu[1])

    def near_free(self, s):
        """no pair on a threshold (|4 d^2 fd^2 - fn^2 S^2| <= 1e-6 fn^2 S^2): such inputs are outside the property"""
        at = s['atoms']
        fn, fd = s['fn'], s['fd']
        for i in range(len(at)):
            for j in range(i + 1, len(at)):
                a, b = at[i], at[j]
                if a['el'] in self.R and b['el'] in self.R:
                    d2 = (a['x'] - b['x']) ** 2 + (a['y'] - b['y']) ** 2 + (a['z'] - b['z']) ** 2
                    t = fn * fn * (self.R[a['el']] + self.R[b['el']]) ** 2
                    if abs(4 * d2 * fd * fd - t) * 1000000 <= 2 * t:
                        return False
        return True

    # -- helpers ------------------------------------------------------------------------------
    def neutral(self, rng, sc):
        """(allow_name, resname) such that names play no role in the residue: names off, or unknown residue
        (fall-back), or a known residue whose atoms are not named after the block"""
        k = rng.randrange(3)
        if k == 0:
            return False, rng.choice(['UNK', 'KNA'])
        if k == 1:
            return True, 'UNK'
        sc.block('KNA', ['P1', 'P2'], [['P1', 'P2']])
        return True, 'KNA'

    def finish(self, rng, sc, family, target, name, dist, fu, focus=(0, 0), ordered=None, comp=(), scope='edges'):
        n = len(sc.atoms)
        perm = list(range(1, n + 1))
        if ordered is None:
            rng.shuffle(perm)              # perm[k-1] = new index of old atom k
        new_atoms = [None] * n
        for oldi, newi in enumerate(perm, 1):
            new_atoms[newi - 1] = sc.atoms[oldi - 1]
        s = {'atoms': new_atoms, 'old': [[perm[i - 1], perm[j - 1]] for i, j in sc.old], 'blocks': sc.blocks,
             'name': bool(name), 'dist': bool(dist), 'fn': fu[0], 'fd': fu[1]}
        f = [perm[focus[0] - 1], perm[focus[1] - 1]] if focus[0] else [0, 0]
        return {'sys': s, 'focus': {'a': f[0], 'b': f[1]}, 'family': family, 'target': target, 'ordered': ordered,
                'comp': list(comp), 'scope': scope}

    # -- the six conjuncts of the distance rule ---------------------------------------------------
    def f_radii(self, rng):
        sc = Scene()
        fu = rng.choice(FUDGES)
        name, rn = self.neutral(rng, sc)
        ea = rng.choice(UNKNOWN_ELS)
        eb = rng.choice(HEAVY + HEAVY + UNKNOWN_ELS)
        p = origin(rng)
        a = sc.add(ea, p, resname=rn, name='Q1')
        b = sc.add(eb, plus(p, vec(rng, 50, 115 * fu[0] / fu[1])), resname=rn, name='Q2')
        return self.finish(rng, sc, 'radii', 'radii', name, True, fu, (a, b))

    def _pair(self, rng, lo, hi, family, target, els=None, comp=()):
        sc = Scene()
        fu = rng.choice(FUDGES)
        name, rn = self.neutral(rng, sc)
        e1, e2 = els or (rng.choice(self.known), rng.choice(self.known))
        if e1 == 'H' and e2 == 'H':
            e2 = 'C'
        t = self.thr(e1, e2, fu)
        p = origin(rng)
        a = sc.add(e1, p, resname=rn, name='Q1')
        b = sc.add(e2, plus(p, vec(rng, t * lo, t * hi)), resname=rn, name='Q2')
        return self.finish(rng, sc, family, target, name, True, fu, (a, b), comp=comp)

    def f_within_out(self, rng):
        lo, hi = rng.choice([(1.0005, 1.012), (1.0005, 1.012), (1.012, 1.2), (1.2, 3.0)])
        return self._pair(rng, lo, hi, 'within-out', 'within', comp=FAR)

    def f_within_in(self, rng):
        return self._pair(rng, 0.988, 0.9995, 'within-in', 'tight', comp=['nofallback'])

    def f_selenium(self, rng):
        return self._pair(rng, 1.3, 5.0, 'selenium', 'se1900', els=('Se', rng.choice(HEAVY)), comp=FAR)

    def f_nonedge(self, rng):
        sc = Scene()
        fu = rng.choice(FUDGES)
        e1, e2 = rng.choice(HEAVY), rng.choice(HEAVY + ['H'])
        t = self.thr(e1, e2, fu)
        p = origin(rng)
        a = sc.add(e1, p, resname='KNA', name='A')
        b = sc.add(e2, plus(p, vec(rng, 60, t * 0.97)), resname='KNA', name='C')
        comp = []
        if rng.random() < 0.5:
            sc.block('KNA', ['A', 'B', 'C'], [])
        else:   # the block also has bonds, to a third atom placed out of bonding range of both
            sc.block('KNA', ['A', 'B', 'C'], [['A', 'B']] + ([['B', 'C']] if rng.random() < 0.5 else []))
            sc.add(rng.choice(HEAVY), plus(p, vec(rng, 700, 900)), resname='KNA', name='B')
            comp = ['no-nameedges'] + FAR
        return self.finish(rng, sc, 'nonedge', 'nonedge', True, True, fu, (a, b), comp=comp)

    def f_hh(self, rng):
        sc = Scene()
        fu = rng.choice(FUDGES)
        name, rn = self.neutral(rng, sc)
        p = origin(rng)
        a = sc.add('H', p, resname=rn, name='Q1')
        b = sc.add('H', plus(p, vec(rng, 50, 118 * fu[0] / fu[1])), resname=rn, name='Q2')
        return self.finish(rng, sc, 'hh', 'hh', name, True, fu, (a, b))

    def _differ(self, rng, comp=None):
        """attributes of a second residue that differs from (mol 0, 'A', 1, '', rn) in exactly one component"""
        comp = comp or rng.choice(['resid', 'chain', 'icode', 'resname', 'mol'])
        kw = {'resid': 1, 'chain': 'A', 'icode': '', 'mol': 0}
        if comp == 'resid':
            kw['resid'] = rng.choice([2, 0, -5, 100])
        elif comp == 'chain':
            kw['chain'] = rng.choice(['B', '', ' ', '-'])
        elif comp == 'icode':
            kw['icode'] = rng.choice(['A', 'B', '-'])
        elif comp == 'mol':
            kw['mol'] = 1
        return comp, kw

    def f_hacross(self, rng):
        sc = Scene()
        fu = rng.choice(FUDGES)
        name, rn = self.neutral(rng, sc)
        comp, kw = self._differ(rng)
        rn2 = ('UNL' if rn == 'UNK' else 'UNK') if comp == 'resname' else rn
        eh = rng.choice(HEAVY)
        t = self.thr('H', eh, fu)
        p = origin(rng)
        els = ['H', eh]
        rng.shuffle(els)
        a = sc.add(els[0], p, resname=rn, name='Q1')
        b = sc.add(els[1], plus(p, vec(rng, 60, t * 0.97)), resname=rn2, name='Q2', **kw)
        return self.finish(rng, sc, 'hacross', 'hacross', name, True, fu, (a, b),
                           comp=['no-' + ('resid' if comp == 'resid' else comp)])

    def f_bonded(self, rng):
        sc = Scene()
        fu = rng.choice(FUDGES)
        name, rn = self.neutral(rng, sc)
        e1, e2 = rng.choice(HEAVY), rng.choice(HEAVY + ['H'])
        t = self.thr(e1, e2, fu)
        p = origin(rng)
        a = sc.add(e1, p, resname=rn, name='Q1')
        b = sc.add(e2, plus(p, vec(rng, 60, t * 0.97)), resname=rn, name='Q2')
        sc.old.append([a, b] if rng.random() < 0.5 else [b, a])
        return self.finish(rng, sc, 'bonded', 'bonded', name, True, fu, (a, b), comp=['no-old'])

    # -- clauses of the molecule partition -----------------------------------------------------------
    def f_partition(self, rng):
        """isolated atoms (no radius, or far from everything) are molecules of their own"""
        sc = Scene()
        fu = rng.choice(FUDGES)
        name, rn = self.neutral(rng, sc)
        p = origin(rng)
        for k in range(rng.randint(1, 4)):
            sc.add(rng.choice(UNKNOWN_ELS + HEAVY + ['H']), plus(p, (0, 0, 800 * k)), resid=k + 1, resname=rn,
                   name='Q1', mol=rng.choice([0, 0, k]))
        return self.finish(rng, sc, 'partition', 'lose-isolated', name, rng.random() < 0.8, fu,
                           comp=['allone', 'no-resid', 'no-mol'] + FAR, scope='mols')

    def f_whole(self, rng):
        """a residue whose atoms are not bonded to each other stays in one molecule"""
        sc = Scene()
        fu = rng.choice(FUDGES)
        name, rn = self.neutral(rng, sc)
        p = origin(rng)
        sc.add(rng.choice(HEAVY), p, resname=rn, name='Q1')
        sc.add(rng.choice(HEAVY), plus(p, vec(rng, 700, 1500)), resname=rn, name='Q2')
        comp = []
        if rng.random() < 0.5:    # ... also when each part is bonded to a different neighbour residue
            q = plus(p, (0, 0, 3000))
            sc.add('C', plus(p, vec(rng, 100, 150)), resid=2, resname=rn, name='Q1')
            sc.add('C', q, resid=3, resname=rn, name='Q1')
        return self.finish(rng, sc, 'whole', 'atomcomp', name, True, fu, comp=['allone', 'lose-isolated', 'no-resid'] + FAR,
                           scope='mols')

    def f_connected(self, rng):
        """residues without a bond between them are different molecules, even from the same input molecule"""
        sc = Scene()
        fu = rng.choice(FUDGES)
        name, rn = self.neutral(rng, sc)
        p = origin(rng)
        n = rng.randint(2, 4)
        for k in range(n):
            q = plus(p, (1200 * k, 0, 0))
            sc.add('C', q, resid=k + 1, resname=rn, name='Q1')
            if rng.random() < 0.6:
                sc.add(rng.choice(['O', 'N', 'H']), plus(q, vec(rng, 90, 115)), resid=k + 1, resname=rn, name='Q2')
        return self.finish(rng, sc, 'connected', 'allone', name, True, fu, comp=['no-resid', 'lose-isolated', 'nofallback'] + FAR,
                           scope='mols')

    def _reskey(self, rng, comp, kw, family, target):
        """two residues whose identity differs in one component only; three ways in which fusing them would show"""
        sc = Scene()
        fu = rng.choice(FUDGES)
        route = rng.choice(['hydrogen', 'names', 'split'])
        p = origin(rng)
        cmp_ = []
        if route == 'hydrogen':
            name, rn = self.neutral(rng, sc)
            rn2 = ('UNL' if rn == 'UNK' else 'UNK') if comp == 'resname' else rn
            eh = rng.choice(HEAVY)
            t = self.thr('H', eh, fu)
            a = sc.add(eh, p, resname=rn, name='Q1')
            b = sc.add('H', plus(p, vec(rng, 60, t * 0.97)), resname=rn2, name='Q2', **kw)
            return self.finish(rng, sc, family, target, name, True, fu, (a, b), comp=['hacross'])
        if route == 'names':
            # both residues have atoms A and B, far apart, bonded by the block; fused they would have duplicate names
            rn2 = 'KNB' if comp == 'resname' else 'KNA'
            sc.block('KNA', ['A', 'B'], [['A', 'B']])
            if comp == 'resname':
                sc.block('KNB', ['A', 'B'], [['A', 'B']])
            for k, (r, k2) in enumerate([('KNA', {}), (rn2, kw)]):
                q = plus(p, (0, 2500 * k, 0))
                sc.add('C', q, resname=r, name='A', **k2)
                sc.add('C', plus(q, vec(rng, 500, 800)), resname=r, name='B', **k2)
            return self.finish(rng, sc, family, target, True, rng.random() < 0.7, fu, comp=['no-nameedges'] + FAR)
        name, rn = self.neutral(rng, sc)
        rn2 = ('UNL' if rn == 'UNK' else 'UNK') if comp == 'resname' else rn
        sc.add(rng.choice(HEAVY), p, resname=rn, name='Q1')
        sc.add(rng.choice(HEAVY), plus(p, vec(rng, 900, 2000)), resname=rn2, name='Q1', **kw)
        return self.finish(rng, sc, family, target, name, True, fu, comp=['allone', 'lose-isolated'] + FAR, scope='mols')

    def f_molidx(self, rng):
        return self._reskey(rng, 'mol', {'mol': 1}, 'molidx', 'no-mol')

    def _f_reskey(self, rng, comp):
        comp, kw = self._differ(rng, comp)
        return self._reskey(rng, comp, kw, 'reskey-' + comp, 'no-' + comp)

    def f_reskey_chain(self, rng):
        return self._f_reskey(rng, 'chain')

    def f_reskey_resid(self, rng):
        return self._f_reskey(rng, 'resid')

    def f_reskey_icode(self, rng):
        return self._f_reskey(rng, 'icode')

    def f_reskey_resname(self, rng):
        return self._f_reskey(rng, 'resname')

    def f_oldkept(self, rng):
        sc = Scene()
        fu = rng.choice(FUDGES)
        name, rn = self.neutral(rng, sc)
        p = origin(rng)
        a = sc.add(rng.choice(HEAVY + ['H', 'X']), p, resname=rn, name='Q1')
        b = sc.add(rng.choice(HEAVY + ['H', 'X']), plus(p, vec(rng, 500, 2500)), resid=rng.choice([1, 2]), resname=rn,
                   name='Q2')
        sc.old.append([a, b])
        return self.finish(rng, sc, 'oldkept', 'no-old', name, rng.random() < 0.7, fu, (a, b), comp=FAR)

    def f_name_exact(self, rng):
        """block bonds between far atoms are made, block atoms that are absent are ignored, atoms the block does not
        know bond by distance"""
        sc = Scene()
        fu = rng.choice(FUDGES)
        names = ['A', 'B', 'C', 'D', 'E']
        edges = [e for e in [['A', 'B'], ['B', 'C'], ['C', 'D'], ['D', 'E'], ['A', 'E'], ['B', 'D']] if rng.random() < 0.6]
        if not edges:
            edges = [['A', 'B']]
        sc.block('KNA', names, edges)
        present = [n for n in names if rng.random() < 0.75] or ['A']
        if edges[0][0] not in present:
            present.append(edges[0][0])
        if edges[0][1] not in present:
            present.append(edges[0][1])
        p = origin(rng)
        idx = {}
        for k, nm in enumerate(present):
            idx[nm] = sc.add(rng.choice(HEAVY), plus(p, (600 * k, 0, 0)), resname='KNA', name=nm)
        if rng.random() < 0.5:   # an atom unknown to the block, next to a block atom: distance bond
            q = sc.pos(idx[present[0]])
            sc.add('O', plus(q, vec(rng, 100, 140)), resname='KNA', name=rng.choice(['OXT', '-']))
        return self.finish(rng, sc, 'name-exact', 'no-nameedges', True, rng.random() < 0.7, fu,
                           (idx[edges[0][0]], idx[edges[0][1]]), comp=FAR)

    def f_name_off(self, rng):
        """allow_name off: the block is ignored altogether (its bonds and its non-bonds)"""
        sc = Scene()
        fu = rng.choice(FUDGES)
        sc.block('KNA', ['A', 'B', 'C'], [['A', 'B']])
        p = origin(rng)
        e1, e2 = rng.choice(HEAVY), rng.choice(HEAVY)
        a = sc.add(e1, p, resname='KNA', name='A')
        sc.add('C', plus(p, vec(rng, 600, 900)), resname='KNA', name='B')
        c = sc.add(e2, plus(p, vec(rng, 80, self.thr(e1, e2, fu) * 0.97)), resname='KNA', name='C')
        return self.finish(rng, sc, 'name-off', 'names-always', False, True, fu, (a, c), comp=FAR)

    def f_fallback_unknown(self, rng):
        sc = Scene()
        fu = rng.choice(FUDGES)
        p = origin(rng)
        rn = rng.choice(['UNK', '-', 'XYZ'])
        e1, e2 = rng.choice(HEAVY), rng.choice(HEAVY + ['H'])
        a = sc.add(e1, p, resname=rn, name='A')
        b = sc.add(e2, plus(p, vec(rng, 70, self.thr(e1, e2, fu) * 0.97)), resname=rn, name='B')
        sc.block('KNA', ['A', 'B'], [])
        return self.finish(rng, sc, 'fallback-unknown', 'nofallback', True, True, fu, (a, b))

    def f_fallback_dup(self, rng):
        """duplicate atom names: neither the block's bonds nor its non-bonds apply; distances decide"""
        sc = Scene()
        fu = rng.choice(FUDGES)
        sc.block('KNA', ['A', 'B', 'C'], [['A', 'B']])
        p = origin(rng)
        e1, e2 = rng.choice(HEAVY), rng.choice(HEAVY)
        a = sc.add(e1, p, resname='KNA', name='A')
        c = sc.add(e2, plus(p, vec(rng, 80, self.thr(e1, e2, fu) * 0.97)), resname='KNA', name='C')     # block non-bond, close
        sc.add('C', plus(p, vec(rng, 600, 900)), resname='KNA', name='B')                               # block bond A-B, far
        dupname = rng.choice(['B', 'Z9', 'A'])
        sc.add(rng.choice(['C', 'X']), plus(p, vec(rng, 1200, 1500)), resname='KNA', name=dupname)
        if dupname == 'Z9':
            sc.add('C', plus(p, vec(rng, 1800, 2100)), resname='KNA', name='Z9')
        return self.finish(rng, sc, 'fallback-dup', 'dup-as-named', True, True, fu, (a, c), comp=['nofallback'] + FAR)

    def f_fallback_nodist(self, rng):
        sc = Scene()
        fu = rng.choice(FUDGES)
        p = origin(rng)
        e1, e2 = rng.choice(HEAVY), rng.choice(HEAVY + ['H'])
        if rng.random() < 0.5:
            rn, n2 = 'UNK', 'B'
        else:
            rn, n2 = 'KNA', 'A'
            sc.block('KNA', ['A', 'B'], [['A', 'B']])
        a = sc.add(e1, p, resname=rn, name='A')
        b = sc.add(e2, plus(p, vec(rng, 70, self.thr(e1, e2, fu) * 0.97)), resname=rn, name=n2)
        return self.finish(rng, sc, 'fallback-nodist', 'fallback-nodist', True, False, fu, (a, b))

    def f_fallback_not_first(self, rng):
        """the fall-back residue is not the first one of the system and its atoms are spread out while the atoms
        before it are packed (and the other way round): the rule must use the residue's own coordinates"""
        sc = Scene()
        fu = rng.choice(FUDGES)
        sc.block('KNA', ['A', 'B', 'C'], [['A', 'B']])
        p = origin(rng)
        tight_first = rng.random() < 0.6
        n1, n2 = rng.randint(2, 4), rng.randint(2, 4)

        names1 = ['A', 'B', 'C', 'Q4']
        for k in range(n1):
            off = vec(rng, 90, 125) if (tight_first and k) else ((0, 0, 0) if tight_first else (700 * k, 0, 0))
            sc.add(rng.choice(['C', 'N', 'O']), plus(p, off), resid=1, resname='KNA', name=names1[k])
        q = plus(p, (0, 4000, 0))
        rn2, nm2 = rng.choice([('UNK', ['A', 'B', 'C', 'D']), ('KNA', ['A', 'A', 'B', 'C'])])
        for k in range(n2):
            off = (700 * k, 0, 0) if tight_first else (vec(rng, 90, 125) if k else (0, 0, 0))
            sc.add(rng.choice(['C', 'N', 'O']), plus(q, off), resid=2, resname=rn2, name=nm2[k])
        return self.finish(rng, sc, 'fallback-not-first', None, True, True, fu, ordered=True)

    def f_elem_gaps(self, rng):
        """atoms without a radius come first in the system: the others must still be judged by their own coordinates"""
        sc = Scene()
        fu = rng.choice(FUDGES)
        name, rn = self.neutral(rng, sc)
        p = origin(rng)
        for k in range(rng.randint(1, 3)):
            sc.add(rng.choice(UNKNOWN_ELS), plus(p, vec(rng, 80, 120) if k else (0, 0, 0)), resname=rn, name='U%d' % k)
        q = plus(p, (0, 0, 3000))
        spread = rng.random() < 0.6
        for k in range(rng.randint(2, 4)):
            off = (700 * k, 0, 0) if spread else (vec(rng, 95, 125) if k else (0, 0, 0))
            sc.add(rng.choice(['C', 'N', 'O']), plus(q, off), resname=rn, name='K%d' % k)
        return self.finish(rng, sc, 'elem-gaps', None, name, True, fu, ordered=True)

    def f_fudge_lt1(self, rng):
        """fudge factor below one: pairs between fudge^2 * largest radius and the threshold still bond"""
        sc = Scene()
        fu = rng.choice(FUDGES_LT1)
        name, rn = self.neutral(rng, sc)
        e1, e2 = rng.choice(HEAVY), rng.choice(HEAVY)
        t = self.thr(e1, e2, fu)
        lo = max(self.rad(e1), self.rad(e2)) * (fu[0] / fu[1]) ** 2
        p = origin(rng)
        a = sc.add(e1, p, resname=rn, name='Q1')
        if lo * 1.003 + 4 < t * 0.997 and rng.random() < 0.8:
            b = sc.add(e2, plus(p, vec(rng, lo * 1.003, t * 0.997)), resname=rn, name='Q2')
        else:
            b = sc.add(e2, plus(p, vec(rng, t * 0.5, t * 1.5)), resname=rn, name='Q2')
        return self.finish(rng, sc, 'fudge-lt-1', None, name, True, fu, (a, b))

    def f_twoletter(self, rng):
        """two-letter element symbols of the radius table (Se, Cl, Si, Br, ...) and their upper-case spelling in PDB
        files (SE, CL: no radius, never bond), around their own threshold"""
        two = [e for e in self.known if len(e) == 2]
        e1 = rng.choice(two)
        if rng.random() < 0.3:
            e1 = e1.upper()
        lo, hi = rng.choice([(0.9, 0.9995), (1.0005, 1.1)])
        c = self._pair(rng, lo, hi, 'two-letter', None, els=(e1, rng.choice(self.known + two)))
        return c

    def f_touch(self, rng):
        """two input molecules (TER-separated chains) whose residues coincide in chain / number / name; a heavy atom of
        one lies within bonding distance of the other (the molecules merge, the residues stay two) or does not"""
        sc = Scene()
        fu = rng.choice(FUDGES)
        name, rn = self.neutral(rng, sc)
        p = origin(rng)
        e1, e2 = rng.choice(HEAVY), rng.choice(HEAVY)
        t = self.thr(e1, e2, fu)
        a = sc.add(e1, p, resname=rn, name='Q1', mol=0)
        sc.add('H', plus(p, vec(rng, 80, 105)), resname=rn, name='Q2', mol=0)
        close = rng.random() < 0.6
        q = plus(p, vec(rng, t * 0.6, t * 0.97) if close else vec(rng, t * 1.05, t * 1.6))
        b = sc.add(e2, q, resname=rn, name='Q1', mol=1)
        sc.add('H', plus(q, vec(rng, 80, 105)), resname=rn, name='Q2', mol=1)
        return self.finish(rng, sc, 'touch', 'no-mol', name, True, fu, (a, b), comp=['hacross', 'allone', 'lose-isolated'] + FAR,
                           scope='mols')

    def f_history(self, rng):
        """a random system; the worker runs MakeBonds on it, optionally removes atoms from the RESULT, and runs MakeBonds
        again on that (second event, family history-2nd)"""
        out = self.f_random(rng)
        out['family'] = 'history'
        if rng.random() < 0.5:      # the same options again, nothing removed: is the second run a no-op?
            s = out['sys']
            out['history'] = {'remove': 0, 'name': s['name'], 'dist': s['dist'], 'fu': [s['fn'], s['fd']], 'same': True}
        else:
            out['history'] = {'remove': rng.choice([0, 1, 2, 3]), 'name': rng.random() < 0.7, 'dist': rng.random() < 0.8,
                              'fu': list(rng.choice(FUDGES + FUDGES_LT1[:2])), 'same': False}
        return out

    def f_modes_off(self, rng):
        out = self.f_random(rng)
        out['sys']['name'] = False
        out['sys']['dist'] = False
        out['family'] = 'modes-off'
        return out

    def f_random(self, rng):
        sc = Scene()
        fu = rng.choice(FUDGES + FUDGES_LT1[:2])
        n = rng.randint(3, 14)
        pool = ['A', 'B', 'C', 'D', 'E']
        for rn in ('KNA', 'KNB'):
            names = pool[:rng.randint(2, 5)]
            edges = [[names[i], names[j]] for i in range(len(names)) for j in range(i + 1, len(names)) if rng.random() < 0.4]
            sc.block(rn, names, edges)
        residues = []
        for mol in range(rng.randint(1, 3)):
            for _ in range(rng.randint(1, 3)):
                residues.append({'mol': mol, 'chain': rng.choice(['A', 'A', 'B']), 'resid': rng.choice([1, 1, 2, 3]),
                                 'icode': rng.choice(['', '', '', 'A']), 'resname': rng.choice(['KNA', 'KNA', 'KNB', 'UNK'])})
        elpool = ['C', 'C', 'C', 'N', 'O', 'O', 'H', 'H', 'H', 'S', 'P', 'Se', 'X', '-', 'Cl', 'Si', 'Br', 'F', 'D']
        pts = []
        for k in range(n):
            r = rng.choice(residues)
            if pts:
                anchor = rng.choice(pts)
                lo, hi = rng.choice([(0, 0)] if rng.random() < 0.01 else [(90, 150), (90, 150), (150, 260), (300, 700)])
                pos = plus(anchor, vec(rng, lo, hi)) if hi else anchor
            else:
                pos = origin(rng)
            pts.append(pos)
            blk = {'KNA': sc.blocks[0]['names'], 'KNB': sc.blocks[1]['names']}.get(r['resname'], pool)
            nm = rng.choice(blk) if rng.random() < 0.75 else rng.choice(['X1', 'X2', '-'])
            sc.add(rng.choice(elpool), pos, name=nm, **r)
        for i in range(1, n + 1):
            for j in range(i + 1, n + 1):
                if sc.atoms[i - 1]['mol'] == sc.atoms[j - 1]['mol'] and rng.random() < 0.07:
                    sc.old.append([i, j] if rng.random() < 0.5 else [j, i])
        name, dist = rng.choice([(True, True)] * 5 + [(True, False)] * 2 + [(False, True)] * 2 + [(False, False)])
        return self.finish(rng, sc, 'random', None, name, dist, fu)


FAMILIES = ['radii', 'within_out', 'within_in', 'selenium', 'nonedge', 'hh', 'hacross', 'bonded',
            'partition', 'whole', 'connected', 'molidx', 'reskey_chain', 'reskey_resid', 'reskey_icode', 'reskey_resname',
            'oldkept', 'name_exact', 'name_off',
            'fallback_unknown', 'fallback_dup', 'fallback_nodist', 'fallback_not_first', 'elem_gaps', 'fudge_lt1',
            'twoletter', 'touch', 'history', 'modes_off', 'random']


def _judge(shard, timeout=3000):
    """one TLC process judges a list of small events; -> (distinct, generated, wall, {tid: (verdict, info)})"""
    work = tlc.scratch('c10_')
    try:
        ev = [{'sys': c['sys'], 'got': {k: c['got'][k] for k in ('err', 'mols', 'edges', 'inorder')}, 'focus': c['focus']}
              for c in shard]
        tf = tlc.write_json(work, 'trace.json', ev)
        # short single-worker runs: the client compiler and two collector threads cost less than half the CPU (measured)
        res = tlc.run('Trace_Bonds', TRACE_CFG, dump=True, env={'TRACE_FILE': tf, 'JAVA_TOOL_OPTIONS': JVM_SHORT}, workdir=work,
                      workers=1, timeout=timeout)
        if res.violated:
            raise tlc.MachineryError('Trace_Bonds violated %s' % res.violated)
        verdicts = {st['tid']: (st['verdict'], st['info']) for st in res.states() if st['verdict'] != 'pending'}
        return res.distinct, res.generated, res.wall, verdicts
    finally:
        shutil.rmtree(work, ignore_errors=True)      # pool workers do not run the atexit clean-up


def make_cases(fams, rng, gen):
    """generate, run the real code (with its history), -> cases with recordings"""
    out = []
    for fam in fams:
        for _ in range(200):
            case = getattr(gen, 'f_' + fam)(rng)
            if gen.near_free(case['sys']):
                break
        else:
            raise tlc.MachineryError('family %s cannot avoid threshold pairs' % fam)
        hist = case.pop('history', None)
        case['got'], system = run_real(case['sys'], rng, ordered=case.pop('ordered'), keep=True)
        out.append(case)
        if hist and not case['got']['err']:
            for _ in range(hist['remove']):
                mols = [m for m in system.molecules if len(m) > 1]
                if mols:
                    m = rng.choice(mols)
                    m.remove_node(rng.choice(list(m.nodes)))
            s2 = project_live(system, case['sys'], hist['name'], hist['dist'], hist['fu'])
            if s2['atoms'] and gen.near_free(s2):
                got2 = apply_makebonds(system, s2, list(range(1, len(s2['atoms']) + 1)), rng)
                out.append({'sys': s2, 'focus': {'a': 0, 'b': 0}, 'family': 'history-2nd', 'target': None, 'comp': [], 'scope': 'edges',
                            'got': got2, 'removed': hist['remove'], 'nbonds_in': len(s2['old']), 'same': hist['same']})
    return out


def _trace_chunk(args):
    """generate + run + JUDGE a share of the trace plan; returns a summary (rejected cases in full, nothing else)"""
    fams, seed, R = args
    _quiet()
    rng = random.Random(seed)
    batch = make_cases(fams, rng, Gen(R))
    dist, gen_, wall, verdicts = _judge(batch)
    out = {'states': dist, 'transitions': gen_, 'wall': wall, 'n': len(batch), 'stats': {}, 'sole_pairs': {}, 'sens_count': {},
           'skipped': 0, 'traces': 0, 'nontrivial': set(), 'rejected': [], 'sample': None,
           'history': {'second_runs': 0, 'with_removed_atoms': 0, 'added_bonds': 0, 'input_bonds': 0,
                       'same_options_again': 0, 'same_options_again_adding_a_bond': 0}}
    for i, c in enumerate(batch, 1):
        if i not in verdicts:
            raise tlc.MachineryError('no verdict for trace %d of a shard' % i)
        v, info = verdicts[i]
        fam = c['family']
        st = out['stats'].setdefault(fam, {'cases': 0, 'decisive': 0, 'sole': 0, 'target': c['target'], 'focus_failing': {},
                                           'scope': set(), 'companions': set()})
        st['scope'].add(c['scope'])
        if v == 'unspecified-near-threshold':
            out['skipped'] += 1
            continue
        if v in ('malformed-input', 'operational-differs-from-declarative', 'fast-differs-from-declarative'):
            raise tlc.MachineryError('%s on generated case %s' % (v, common.jsonable(c['sys'])))
        out['traces'] += 1
        st['cases'] += 1
        sens = set(info['sens'])
        for x in sens:
            out['sens_count'][x] = out['sens_count'].get(x, 0) + 1
        for k, n in dict(info['sole']).items():
            out['sole_pairs'][k] = out['sole_pairs'].get(k, 0) + n
        out['sole_pairs']['(none fails: distance bond)'] = out['sole_pairs'].get('(none fails: distance bond)', 0) + info['nbond']
        if c['focus']['a']:
            key = '+'.join(sorted(info['failing'])) or '(none)'
            st['focus_failing'][key] = st['focus_failing'].get(key, 0) + 1
        if c['target']:
            scoped = sens if c['scope'] == 'mols' else set(info['sensE'])
            if c['target'] in scoped:
                st['decisive'] += 1
                st['companions'] |= set(c['comp'])
                if scoped <= {c['target']} | set(c['comp']):
                    st['sole'] += 1
        if fam == 'history-2nd':
            h = out['history']
            h['second_runs'] += 1
            h['with_removed_atoms'] += c['removed'] > 0
            h['added_bonds'] += info['nbond']
            h['input_bonds'] += c['nbonds_in']
            h['same_options_again'] += c['same']
            h['same_options_again_adding_a_bond'] += c['same'] and info['nbond'] > 0
        if len(sens - SHAPE) >= 1:
            out['nontrivial'].add(hashlib.sha1(json.dumps(common.jsonable(c['sys']), sort_keys=True).encode()).hexdigest()[:16])
        if v != 'ok':
            out['rejected'].append(({'kind': 'trace', 'sys': c['sys'], 'got': c['got'], 'focus': c['focus'], 'family': fam,
                                     'verdict': v}, v))
        elif out['sample'] is None and fam == 'nonedge':
            out['sample'] = {'kind': 'recorded run judged by TLC', 'family': fam, 'sys': c['sys'], 'got': c['got']}
    return out


def _merge_stats(total, part):
    for fam, st in part.items():
        t = total.setdefault(fam, {'cases': 0, 'decisive': 0, 'sole': 0, 'target': st['target'], 'focus_failing': {},
                                   'scope': set(), 'companions': set()})
        for k in ('cases', 'decisive', 'sole'):
            t[k] += st[k]
        t['scope'] |= st['scope']
        t['companions'] |= st['companions']
        for k, n in st['focus_failing'].items():
            t['focus_failing'][k] = t['focus_failing'].get(k, 0) + n


def _add(total, part):
    for k, n in part.items():
        total[k] = total.get(k, 0) + n


def spec_table():
    res = tlc.run('Bonds', TBL_CFG, consts=EMPTY, dump=True, workers=1, timeout=300)
    sts = list(res.states())
    if len(sts) != 1:
        raise tlc.MachineryError('table export: %d states' % len(sts))
    R = {str(k): int(v) for k, v in dict(sts[0]['sys']).items()}
    if len(R) < 10 or not all(100 <= v <= 250 for v in R.values()):
        raise tlc.MachineryError('implausible radius table from the spec: %r' % R)
    return R, set(sts[0]['out'])


# ---------------------------------------------------------------------------------------------- driver
def _viol(vd, ev, kind, sc, why):
    """report a violation and count it by kind / clause for the evidence"""
    clause = re.sub(r'<<.*?>>|[0-9]+|\[.*', '#', why)[:70]
    by = ev.extra.setdefault('violations_by_kind', {})
    by[kind + ': ' + clause] = by.get(kind + ': ' + clause, 0) + 1
    return vd.violation(kind, sc, why)


REAL_NEED = {   # what the real-structure family must have exercised (summed over its runs); else the run is vacuous
    'runs': 8, 'nname': 100, 'nguess': 100, 'nold': 10, 'nfallback': 2, 'twins': 2, 'sole.hh': 1, 'sole.hacross': 1,
    'sole.nonedge': 1, 'sole.radii': 1, 'sole.bonded': 100, 'merged_by_bond': 1, 'split_input_molecule': 1,
    'read.ncross': 1, 'read.nlinks': 10, 'read.nalt': 1, 'read.skipped_atoms': 10, 'read.multi_model': 1, 'second_runs': 1,
    'runs_after_removal': 1, 'gro_runs': 1, 'name_only': 1, 'dist_only': 1, 'none_mode': 1, 'fudge_below_1': 1}


def _real_summary(parts, ev, vd):
    """merge the summaries of the real-structure workers; violations; vacuity"""
    tot = {k: 0 for k in REAL_NEED}
    runs = []
    unsupported = []
    for part in parts:
        ev.states += part['states']
        ev.transitions += part['transitions']
        unsupported += part['unsupported']
        if part['sample']:
            ev.sample(part['sample'])
        for r in part['runs']:
            v, info, case = r['verdict'], r['info'], r['case']
            if v == 'malformed-input':
                raise tlc.MachineryError('real-structure run is malformed for the spec: %s' % (case,))
            line = {'src': case['src'], 'ops': case['ops'], 'fmt': case.get('fmt', 'pdb'), 'ff': case['ff'],
                    'mode': ('name' if case['name'] else '') + ('+' if case['name'] and case['dist'] else '') + ('dist' if case['dist'] else '') or 'none',
                    'fudge': '%d/%d' % tuple(case['fudge']), 'history': case.get('history', ['run']), 'step': r['step'], 'verdict': v}
            if v == 'unspecified-near-threshold':
                tot.setdefault('skipped_on_threshold', 0)
                tot['skipped_on_threshold'] += 1
                runs.append(line)
                continue
            ev.traces += 1
            ev.evaluations += 1
            if not info.get('natoms'):          # the reader's result was rejected: the bonds were not looked at
                runs.append(line)
                _viol(vd, ev, 'real-structure-rejected', {'kind': 'real', 'case': case, 'step': r['step'], 'verdict': v, 'exception': r['exc']},
                      '%s (%s %s, run %d of the history)' % (v, case['src'], case['ops'], r['step']))
                continue
            line.update({k: info.get(k) for k in ('natoms', 'nres', 'nnamed', 'nfallback', 'nold', 'nname', 'nguess', 'ninmol', 'nmol', 'twins')})
            line['blocked_only_by'] = {k: n for k, n in dict(info['sole']).items() if n and k != 'within'}
            rd = info.get('read', {})
            if rd.get('nrecs'):
                line['read'] = {k: rd[k] for k in ('natomrecs', 'nkept', 'nsegs', 'nlinks', 'ncross', 'nmols', 'nalt', 'nmodels')}
                tot['read.ncross'] += rd['ncross']
                tot['read.nlinks'] += rd['nlinks']
                tot['read.nalt'] += rd['nalt']
                tot['read.skipped_atoms'] += rd['natomrecs'] - rd['nkept']
                tot['read.multi_model'] += rd['nmodels'] > 1
            runs.append(line)
            tot['runs'] += 1
            for k in ('nname', 'nguess', 'nold', 'nfallback', 'twins'):
                tot[k] += info[k]
            for k in ('hh', 'hacross', 'nonedge', 'radii', 'bonded'):
                tot['sole.' + k] += dict(info['sole'])[k]
            tot['merged_by_bond'] += info['nmol'] < info['ninmol']
            tot['split_input_molecule'] += info['nmol'] > info['ninmol']
            tot['second_runs'] += r['step'] > 0
            if r['step'] > 0 and case.get('history') == ['run', 'run']:
                tot.setdefault('same_options_again', 0)
                tot.setdefault('same_options_again_adding_a_bond', 0)
                tot['same_options_again'] += 1
                tot['same_options_again_adding_a_bond'] += info['nnew'] > 0
            tot['runs_after_removal'] += any(h.startswith('remove') for h in case.get('history', []))
            tot['gro_runs'] += case.get('fmt') == 'gro'
            tot['name_only'] += case['name'] and not case['dist'] and r['step'] == 0
            tot['dist_only'] += case['dist'] and not case['name'] and r['step'] == 0
            tot['none_mode'] += not case['dist'] and not case['name']
            tot['fudge_below_1'] += case['fudge'][0] < case['fudge'][1]
            if info['nguess'] + info['nname'] > 0:
                ev.nontrivial_case([case, r['step']])
            if v != 'ok':
                _viol(vd, ev, 'real-structure-rejected', {'kind': 'real', 'case': case, 'step': r['step'], 'verdict': v,
                                                         'got_summary': r.get('got_summary'), 'exception': r['exc']},
                             '%s (%s %s, run %d of the history)' % (v, case['src'], case['ops'], r['step']))
    vacuous = []
    missing = {k: (tot[k], need) for k, need in REAL_NEED.items() if tot[k] < need}
    if missing:
        vacuous.append('real-structure family is vacuous (have, need): %s' % missing)
    if tot.get('skipped_on_threshold', 0) > 0.1 * max(1, len(runs)):
        vacuous.append('%d real-structure runs were on a threshold' % tot['skipped_on_threshold'])
    return tot, runs, unsupported, vacuous


def run(tier, seed, ev, vd):
    from . import c10_real
    quick = tier == 'quick'
    ev.rule = ('TAB: every 3-atom system on a line in the bounded domain (elements x positions x residue numbers x input '
               'molecules x residue names x atom names x old bonds x 4 modes x fudge) and every ordered pair of elements of '
               'the radius table just inside / outside the threshold. TRACE: generator families, one per '
               'conjunct of the distance rule and per clause of the partition. Non-trivial = TLC finds at least one '
               'dropped-clause variant (other than "all atoms one molecule" / "single atoms dropped") whose result '
               'differs from the property\'s on that input; distinct by input. Per family the evidence gives: cases, '
               'decisive = the family\'s clause (variant `target`) is distinguished by the input (scope edges: bonds / '
               'distance attributes differ; scope mols: the result differs), sole = nothing but the target and its listed '
               'companions (variants logically entailed by the construction) is distinguished, focus_failing = set of failing '
               'conjuncts of the aimed pair as computed by TLC. REAL: one run of the reading front end + MakeBonds per listed '
               'structure / operation / option vector; non-trivial = at least one name-based or guessed bond expected; the '
               'family must have exercised every item of real_structures.exercised (minimum counts in REAL_NEED).')
    ev.assumptions = [
        'TLC evaluates the TLA+ operators correctly',
        'coordinates on a 10 pm lattice; pairs whose squared distance is within 1e-6 (relative) of the squared threshold '
        'are never judged (TLC re-checks and skips them); real structures are snapped to that lattice and an atom of such a '
        'pair is moved one lattice step',
        'elements without a radius are taken from {X, Xx, Q, "", absent, ZN, Fe, SE, CL}: the element string is compared as it '
        'is, so the upper-case two-letter spelling of PDB files has no radius in the spec either; lower-case symbols and '
        'metals for which Bondi lists radii that vermouth does not document are not generated',
        'recorded distance attributes are converted to integer pm^2 with relative tolerance 1e-6',
        'reference blocks have unique atom names and at least one atom',
        'atoms always have a position',
        'pairs exactly on the threshold are judged only in the class where IEEE-754 double arithmetic is exact (same element, '
        'fudge 1, first atom at the origin, second on the x axis: sqrt(x*x) = x = 0.5*(r+r)); all other on-threshold pairs are '
        'reported as an observation',
        'reader (BondsRead): serial numbers of the atoms read are unique; alternate locations are not combined with excluded '
        'residues or hydrogens; the order of the molecules the reader returns and the interleaving of merged molecules are not judged',
        'the fall-back warning count (one per residue, documented by make_bonds) is judged for real structures only',
        'a second run is judged against the statement for ITS input (the input molecules are then the molecules of the first '
        'result); whether it adds bonds is reported, not required']
    R, variants = spec_table()
    # the pool is created while the parent is still small; workers generate, run and judge their own share
    pool = mp.Pool(tlc.NCPU)
    try:
        cases = c10_real.plan(tier, seed)
        # big structures first, one case per task (a task = real runs + one TLC process)
        weight = {'1mj5': 50, '2qwo': 40, '6lfo': 20, 'lysozyme': 12}
        cases.sort(key=lambda c: -weight.get(c['src'], 1) * len(c.get('history', [1])))
        per_task = 2
        real_tasks = [cases[i:i + per_task] for i in range(0, len(cases), per_task)]
        real_async = [pool.apply_async(c10_real.worker, ((chunk, R),)) for chunk in real_tasks]
        per = 12 if quick else 450
        nrandom = 150 if quick else 4000
        plan = [f for f in FAMILIES if f != 'random' for _ in range(per)] + ['random'] * nrandom
        random.Random(seed).shuffle(plan)
        nchunks = tlc.NCPU * (1 if quick else 12)
        trace_async = [pool.apply_async(_trace_chunk, ((c, seed * 7907 + i, R),)) for i, c in enumerate(common.chunks(plan, nchunks))]
        # ---- TAB (TLC in the parent while the workers are busy)
        res = tlc.run('Bonds', TAB_CFG, consts=TAB_CONSTS[tier], dump=True, coverage=False, timeout=3000, workers=8 if quick else 16)
        if res.violated:
            raise tlc.MachineryError('Bonds model violates %s: %s' % (res.violated, res.error_trace[-1:] if res.error_trace else ''))
        ev.add_tlc('TAB Bonds (3 atoms on a line; element-pair sweep)', res)
        nrep = tlc.NCPU * (2 if quick else 8)
        tab_async = [pool.apply_async(_replay_chunk, ((res.dump_path, k, nrep, seed * 1009 + k),)) for k in range(nrep)]
        # ---- collect
        tab_sens, near = {}, {'states': 0, 'bonds_expected': 0, 'bonds_made': 0, 'agree': 0}
        seen = pending = replayed = 0
        for a in tab_async:
            part = a.get()
            seen += part['seen']
            pending += part['pending']
            replayed += part['n']
            ev.traces += part['n']
            ev.evaluations += part['n']
            _add(tab_sens, part['tab_sens'])
            _add(near, part['near'])
            ev.nontrivial |= part['nontrivial']
            for sc, why in part['bad']:
                if sc is not None:
                    _viol(vd, ev, 'replay-mismatch', sc, why)
                else:
                    ev.violations += 1
                    by = ev.extra.setdefault('violations_by_kind', {})
                    by['replay-mismatch: (more)'] = by.get('replay-mismatch: (more)', 0) + 1
            if part['sample']:
                ev.sample({'kind': 'TAB state replayed into MakeBonds.run_system', 'state': part['sample']})
        if not near.get('judged_exact'):
            raise tlc.MachineryError('no on-threshold state of the exactly representable class was replayed')
        if seen != res.distinct or 2 * pending != res.distinct or replayed + near['states'] != pending or not replayed:
            raise tlc.MachineryError('dump: %d states read, %d pending, %d replayed, %d on a threshold; TLC reports %d states' % (
                seen, pending, replayed, near['states'], res.distinct))
        if near['states'] == 0:
            raise tlc.MachineryError('the TAB model has no pair exactly on a threshold')
        ev.exhaustive = True
        stats, sole_pairs, sens_count, history = {}, {}, {}, {}
        skipped = ntr = 0
        wall = 0.0
        for a in trace_async:
            part = a.get()
            ev.states += part['states']
            ev.transitions += part['transitions']
            ev.traces += part['traces']
            ev.evaluations += part['traces']
            wall = max(wall, part['wall'])
            ntr += part['n']
            skipped += part['skipped']
            _merge_stats(stats, part['stats'])
            _add(sole_pairs, part['sole_pairs'])
            _add(sens_count, part['sens_count'])
            _add(history, part['history'])
            ev.nontrivial |= part['nontrivial']
            for sc, why in part['rejected']:
                _viol(vd, ev, 'trace-rejected', sc, why + ' (family %s)' % sc['family'])
            if part['sample']:
                ev.sample(part['sample'])
        ev.tlc_runs.append({'run': 'TRACE Trace_Bonds (small families)', 'events': ntr, 'shards': len(trace_async), 'wall_s': round(wall, 1)})
        real_parts = [a.get() for a in real_async]
        ev.tlc_runs.append({'run': 'TRACE Trace_Bonds (real structures: BondsRead + Bonds!FastOutC)', 'events': sum(len(p['runs']) for p in real_parts),
                            'shards': len(real_parts), 'wall_s': round(max(p['wall'] for p in real_parts), 1)})
    finally:
        pool.terminate()
        pool.join()
    for st in stats.values():
        st['companions'] = sorted(st['companions'])
        st['scope'] = '/'.join(sorted(st['scope']))
    # vacuity: a family that did not exercise its clause makes the run a machinery failure - unless a violation was found
    # (a defect can make a family vacuous, e.g. by raising; the violation is the result then)
    vacuous = []
    if skipped > 0.02 * ntr:
        vacuous.append('%d of %d generated cases were on a threshold' % (skipped, ntr))
    for fam, st in sorted(stats.items()):
        if st['target'] and st['decisive'] < max(3, 0.5 * st['cases']):
            vacuous.append('vacuous family %s: clause %s decisive in %d of %d cases' % (fam, st['target'], st['decisive'], st['cases']))
    for fam, conj in (('radii', 'radii'), ('within-out', 'within'), ('nonedge', 'nonedge'), ('hh', 'hh'),
                      ('hacross', 'hacross'), ('bonded', 'bonded'), ('within-in', '(none)')):
        st = stats[fam]
        if st['focus_failing'].get(conj, 0) < 0.9 * st['cases']:
            vacuous.append('family %s: %s is the sole failing conjunct of the aimed pair in only %d of %d cases' % (
                fam, conj, st['focus_failing'].get(conj, 0), st['cases']))
    missing = [c for c in ('radii', 'within', 'nonedge', 'hh', 'hacross', 'bonded') if sole_pairs.get(c, 0) == 0]
    if missing:
        vacuous.append('no pair with sole failing conjunct %s' % missing)
    never = sorted(v for v in variants if sens_count.get(v, 0) == 0)
    if never:
        vacuous.append('variants never distinguished by any trace: %s' % never)
    if history.get('second_runs', 0) < 5 or history.get('with_removed_atoms', 0) < 1 or history.get('input_bonds', 0) < 10:
        vacuous.append('history family is vacuous: %s' % history)
    tot, runs, unsupported, vac_real = _real_summary(real_parts, ev, vd)
    vacuous += vac_real
    if vacuous and not ev.violations:
        raise tlc.MachineryError('; '.join(vacuous))
    ev.extra['vacuity_problems'] = vacuous
    ev.extra['families'] = stats
    ev.extra['pairs_by_sole_failing_conjunct'] = sole_pairs
    ev.extra['cases_distinguishing_variant'] = {'trace': sens_count, 'tab': tab_sens}
    ev.extra['skipped_on_threshold'] = skipped
    ev.extra['radius_table_pm_from_spec'] = R
    ev.extra['history_small'] = history
    ev.extra['pairs_exactly_on_threshold'] = dict(near, note='TAB states with a pair exactly on the threshold: the statement puts '
                                                  'them INSIDE (invariant OnThresholdInside); observation only: in `agree` of '
                                                  '`states` the floating-point implementation made exactly the expected number of bonds')
    ev.extra['real_structures'] = {'exercised': tot, 'minimum': REAL_NEED, 'runs': runs, 'not_expressible': unsupported}


def replay(sc):
    _quiet()
    if sc.get('kind') == 'real':
        from . import c10_real
        R, _ = spec_table()
        events = c10_real.run_case(sc['case'], R)
        verdicts, _, _, _ = c10_real.judge_events(events)
        rc = 0
        for e, (v, info) in zip(events, verdicts):
            g = e['event']['got']
            print('run %d of %s %s: real MakeBonds -> %d molecules, %d bonds%s' % (
                e['step'], e['case']['src'], e['case']['ops'], len(g['mols']), len(g['edges']), ' EXCEPTION ' + e['exc'] if g['err'] else ''))
            print('  TLC verdict: %s' % v)
            if e['step'] == sc.get('step', e['step']) and v != 'ok':
                rc = 1
        return rc
    rng = random.Random(0)
    got = run_real(sc['sys'], rng)
    case = {'sys': sc['sys'], 'got': got, 'focus': sc.get('focus', {'a': 0, 'b': 0})}
    _, _, _, verdicts = _judge([case])
    v, info = verdicts[1]
    print('real MakeBonds.run_system -> molecules %s' % got['mols'])
    print('  bonds %s' % [(e['a'], e['b'], 'distance^2=%d' % e['d2'] if e['hasd'] else 'no distance') for e in got['edges']])
    print('TLC verdict: %s ; variants distinguished: %s' % (v, sorted(info['sens'])))
    return 0 if v == 'ok' else 1


def selftest(seed):
    """Binding demonstration: tampered recordings and a tampered input must be rejected with the right clause."""
    from . import c10_real
    import copy
    _quiet()
    R, _ = spec_table()
    gen = Gen(R)
    rng = random.Random(seed)

    def make(fam):
        while True:
            c = getattr(gen, 'f_' + fam)(rng)
            c.pop('history', None)
            if gen.near_free(c['sys']):
                c['got'] = run_real(c['sys'], rng, ordered=c.pop('ordered'))
                return c
    batch, expect = [], []
    c = make('within_in')                                     # 1 untouched
    batch.append(c); expect.append('ok')
    c = make('within_in'); c['got']['edges'] = []             # 2 guessed bond removed
    batch.append(c); expect.append('distance-bond-missing')
    c = make('within_out')                                    # 3 bond added beyond the threshold
    c['got']['edges'].append({'a': 1, 'b': 2, 'hasd': True, 'd2': 0, 'old': False}); c['got']['mols'] = [[1, 2]]
    batch.append(c); expect.append('bond-violates-within')
    c = make('hh'); c['got']['edges'].append({'a': 1, 'b': 2, 'hasd': True, 'd2': 0, 'old': False})
    batch.append(c); expect.append('bond-violates-hh')        # 4
    c = make('connected'); c['got']['mols'] = [sorted((x for m in c['got']['mols'] for x in m), key=c['got']['inorder'].index)]
    batch.append(c); expect.append('molecule-not-connected')  # 5 molecules merged
    c = make('whole'); c['got']['mols'] = [[x] for m in c['got']['mols'] for x in m]
    c['got']['edges'] = []
    batch.append(c); expect.append('residue-split')           # 6 residue split
    c = make('bonded'); c['got']['edges'][0]['hasd'] = True; c['got']['edges'][0]['d2'] = 1
    batch.append(c); expect.append('existing-bond-rebonded')  # 7
    c = make('within_in'); c['got']['edges'][0]['d2'] += 100
    batch.append(c); expect.append('distance-attribute-wrong')  # 8
    c = make('within_in')                                     # 9 tampered INPUT: the recorded element is changed
    for a in c['sys']['atoms']:
        a['el'] = 'X'
    batch.append(c); expect.append('bond-violates-radii')
    c = make('oldkept'); c['got']['edges'] = []
    batch.append(c); expect.append('old-bond-lost')           # 10
    c = make('name_exact'); c['got']['edges'] = [e for e in c['got']['edges'] if _norm(e['a'], e['b']) != _norm(c['focus']['a'], c['focus']['b'])]
    batch.append(c); expect.append('name-bond-missing')       # 11
    while True:                                               # 12 atoms of a molecule listed in another order (D30)
        c = make('random')
        big = [k for k, m in enumerate(c['got']['mols']) if len(m) >= 2]
        if big and not c['got']['err']:
            c['got']['mols'][big[0]] = c['got']['mols'][big[0]][::-1]
            break
    batch.append(c); expect.append('molecule-atoms-not-in-input-order')
    while True:                                               # 13 tampered INPUT: the two input molecules declared one
        c = make('molidx')
        if c['focus']['a']:
            break
    for a in c['sys']['atoms']:
        a['mol'] = 0
    batch.append(c); expect.append(('residue-split', 'distance-bond-missing'))
    _, _, _, verdicts = _judge(batch)
    for i, exp in enumerate(expect, 1):
        v = verdicts[i][0]
        assert v.startswith(exp), (i, exp, v)
    print('selftest C10: untouched recording accepted; tampered recordings/inputs rejected by TLC with the clause:')
    for i, exp in enumerate(expect, 1):
        print('  %2d %-10s -> %s' % (i, batch[i - 1]['family'], verdicts[i][0]))
    # ---- real structures: one real run (two chains with inter-chain CONECT, ligand, waters), tampered copies
    case = c10_real._case('3i40', ['ligand', 'altloc:3', 'unkres:1'], seed=seed)
    base = c10_real.run_case(case, R)[0]

    def variant(edit):
        e = copy.deepcopy(base)
        edit(e['event'])
        return e

    def t_order(e):
        m = max(e['got']['mols'], key=len)
        m[0], m[-1] = m[-1], m[0]

    def t_conect_drop(e):
        e['read']['edges'].pop()

    def t_conect_wrong(e):
        e['read']['edges'][0]['b'] = e['read']['edges'][0]['b'] + 1

    def t_model(e):
        r = next(r for r in e['file']['recs'] if r['k'] == 'atom' and r['altloc'] == '' and r['resname'] != 'HOH' and r['el'] != 'H')
        r['altloc'] = 'B'

    def t_name_bond(e):
        k = next(k for k, x in enumerate(e['got']['edges']) if x['hasd'] and not x['old'])
        e['got']['edges'].pop(k)

    def t_warn(e):
        e['got']['wunk'] += 1

    def t_alt(e):
        e['read']['nalt'] -= 1

    def t_merge(e):
        e['read']['mols'] = [sum(e['read']['mols'], [])]

    def t_attr(e):
        e['read']['mols'][0][3]['resid'] += 1

    def t_split(e):
        # the last atom of the longest molecule is moved into a molecule of its own
        k = max(range(len(e['got']['mols'])), key=lambda q: len(e['got']['mols'][q]))
        a = e['got']['mols'][k].pop()
        e['got']['mols'].append([a])
        e['got']['molof'][a - 1] = len(e['got']['mols'])

    tamper = [('untouched', lambda e: None, 'ok'), ('atoms of a molecule reordered', t_order, 'molecule-atoms-not-in-input-order'),
              ('CONECT bond dropped from the read system', t_conect_drop, 'read-conect-bond-missing'),
              ('CONECT bond moved to the next atom', t_conect_wrong, 'read-conect-bond-wrong'),
              ('input tampered: an atom given alternate location B', t_model, 'read-atom-that-should-be-skipped'),
              ('a bond removed from the result', t_name_bond, ('name-bond-missing', 'distance-bond-missing')),
              ('one more unknown-residue warning', t_warn, 'fall-back-warnings-wrong'),
              ('one alternate-location warning less', t_alt, 'read-altloc-warnings-wrong'),
              ('read molecules declared one', t_merge, 'read-molecules-wrong'),
              ('residue number of a read atom changed', t_attr, 'read-atom-attributes-wrong'),
              ('an atom split off its residue', t_split, 'residue-split')]
    events = [variant(f) for _, f, _ in tamper]
    verdicts, _, _, _ = c10_real.judge_events(events)
    for (what, _, exp), (v, _) in zip(tamper, verdicts):
        assert v.startswith(exp), (what, exp, v)
        print('  real %-45s -> %s' % (what, v))
    return 0
