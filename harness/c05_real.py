"""C05, machinery shared by the synthetic and the real-data family, and the real-data family itself.

abstract_link / abstract_state   generic projection of real vermouth objects (Link, Molecule) to the JSON encoding of
                                 spec/Links.tla: attribute dict -> predicates (plain value / Choice / NotDefinedOrNot), the
                                 `modifications` condition (absent / empty / list / str / Choice), orders of all kinds, non-edges,
                                 patterns, molecule_meta, interactions (version, meta, parameter effectors), removed_interactions
                                 (parameters, atom_attrs, meta), replace, node deletion, features.  Anything the spec cannot
                                 express raises Unsupported(reason): the caller lists the link by name and takes it out of the
                                 run - never silently.
record_run                       the real DoLinks.run_molecule with harness-side interposition: `match_link` (placements per
                                 link, state the link saw) and `LinkParameterEffector.__call__` (geometry-derived values are
                                 tagged so that they can be told from plain parameters even after formatting).  A run can be cut
                                 into SEGMENTS of consecutive links; the state at every cut is projected from the live molecule.
judge_events                     shards the events over TLC processes (spec/Trace_Links.tla), reads the verdicts and matches the
                                 geometry-derived floats against the exact integer invariants TLC hands back.
real family                      tier-0 integration structures -> real pipeline in-process up to DoMapping + DoAverageBead
                                 (bin/martinize2: read_system, pdb_to_universal, secondary structure, SetMoleculeMeta, DoMapping,
                                 DoAverageBead, AnnotateIDRs) -> positions snapped to a 10 pm lattice, optional renumbering with
                                 gaps -> real DoLinks with every link of the shipped force field."""
import copy
import importlib.machinery
import importlib.util
import math
import multiprocessing as mp
import numbers
import os
import random

from . import common, tlc

REPO = common.REPO
TIER0 = os.path.join(REPO, 'vermouth', 'tests', 'data', 'integration_tests', 'tier-0')
ANGLE_TOL = 1e-4          # degrees
DIST_RTOL = 1e-6          # relative, on the distance in nm
REAL_UNIT_PM = 10         # real molecules: positions snapped to a 10 pm lattice


class Unsupported(Exception):
    """A feature the spec cannot express (the reason is reported in the evidence)."""


# ------------------------------------------------------------------ values
def enc(v):
    """Attribute / parameter / meta value -> text. Numbers are encoded by value (True == 1 == 1.0 in Python)."""
    if isinstance(v, str):
        return v
    if v is None:
        return '#None'
    if isinstance(v, (bool, numbers.Number)) or type(v).__module__ == 'numpy' and hasattr(v, 'dtype') and getattr(v, 'ndim', 1) == 0:
        f = float(v)
        if f != f or f in (float('inf'), float('-inf')):
            raise Unsupported('non-finite number %r' % (v,))
        return '#num:%d' % int(f) if f == int(f) else '#num:%r' % f
    raise Unsupported('value of type %s' % type(v).__name__)


def dec(s):
    """Inverse of enc on its image (used to build real objects from the synthetic pool)."""
    if s == '#None':
        return None
    if s.startswith('#num:'):
        t = s[5:]
        return int(t) if t.lstrip('-').isdigit() else float(t)
    return s


ABSENT = {'k': 'absent', 'vals': []}
EMPTY = {'k': 'empty', 'vals': []}


def _names(values, what):
    out = []
    for x in values:
        if not isinstance(x, str):
            raise Unsupported('%s holds a non-string %r' % (what, x))
        out.append(x)
    return out


def abstract_mods_condition(attrs):
    from vermouth.molecule import Choice
    if 'modifications' not in attrs:
        return dict(ABSENT)
    v = attrs['modifications']
    if isinstance(v, Choice):
        return {'k': 'choice', 'vals': _names(v.value, 'modifications Choice')}
    if isinstance(v, (list, str, tuple)) or v is None:
        if not v:
            return dict(EMPTY)
        if isinstance(v, list):
            return {'k': 'list', 'vals': _names(v, 'modifications list')}
        if isinstance(v, str):
            return {'k': 'str', 'vals': [v]}
    raise Unsupported('modifications condition of type %s' % type(v).__name__)


def abstract_preds(attrs, ignore=()):
    """attribute dict of a template -> predicate list (keys in `ignore` are not conditions)."""
    from vermouth.molecule import Choice, NotDefinedOrNot, LinkPredicate
    out = []
    for k, v in attrs.items():
        if k in ignore:
            continue
        if not isinstance(k, str):
            raise Unsupported('attribute key %r' % (k,))
        if isinstance(v, Choice):
            vals = list(v.value) if isinstance(v.value, (list, tuple, set, frozenset)) else None
            if vals is None or any(x is None for x in vals):
                raise Unsupported('Choice over %r' % (v.value,))
            out.append({'key': k, 'kind': 'in', 'vals': [enc(x) for x in vals]})
        elif isinstance(v, NotDefinedOrNot):
            if v.value is None:
                raise Unsupported('NotDefinedOrNot(None)')
            out.append({'key': k, 'kind': 'notdef', 'vals': [enc(v.value)]})
        elif isinstance(v, LinkPredicate):
            raise Unsupported('predicate %s' % type(v).__name__)
        elif v is None:
            out.append({'key': k, 'kind': 'null', 'vals': []})
        else:
            out.append({'key': k, 'kind': 'eq', 'vals': [enc(v)]})
    return out


def abstract_order(attrs):
    if 'order' not in attrs:
        return {'k': 'none', 'v': 0}
    o = attrs['order']
    if o is True or o is False:
        raise Unsupported('boolean order')
    if isinstance(o, numbers.Number):
        if int(o) != float(o):
            raise Unsupported('non-integral order %r' % (o,))
        return {'k': 'num', 'v': int(o)}
    if isinstance(o, str) and o and len(set(o)) == 1 and o[0] in '><*':
        return {'k': {'>': 'gt', '<': 'lt', '*': 'star'}[o[0]], 'v': len(o)}
    raise Unsupported('order %r' % (o,))


TEMPLATE_IGNORE = ('order', 'replace', 'modifications')
EFFECTOR_KINDS = {'ParamDistance': 'dist', 'ParamAngle': 'angle', 'ParamDihedral': 'dih', 'ParamDihedralPhase': 'dihp'}


def abstract_link(link):
    """Real Link -> JSON of the spec. Raises Unsupported."""
    from vermouth.molecule import LinkParameterEffector
    keys = list(link.nodes)
    if not keys:
        raise Unsupported('link without atoms')
    for k in keys:
        if not isinstance(k, str):
            raise Unsupported('atom key %r' % (k,))
    out = {'nodes': [], 'edges': [[a, b] for a, b in link.edges], 'nonedges': [], 'patterns': [], 'molmeta': [], 'inters': [],
           'removes': [], 'replaces': [], 'deletes': [], 'features': sorted(_names(link.features, 'features'))}
    for k in keys:
        attrs = link.nodes[k]
        out['nodes'].append({'key': k, 'order': abstract_order(attrs), 'preds': abstract_preds(attrs, TEMPLATE_IGNORE),
                             'mods': abstract_mods_condition(attrs)})
        rep = attrs.get('replace')
        if rep is not None:
            if not isinstance(rep, dict):
                raise Unsupported('replace of type %s' % type(rep).__name__)
            if 'atomname' in rep and rep['atomname'] is None:
                if len(rep) > 1:
                    raise Unsupported('atom deletion combined with attribute replacement')
                out['deletes'].append(k)
            else:
                for a, v in rep.items():
                    if a in ('resid', 'modifications', 'position', 'order', 'replace') or not isinstance(a, str):
                        raise Unsupported('replace of attribute %r' % (a,))
                    out['replaces'].append({'key': k, 'attr': a, 'value': enc(v)})
    for a, b in link.edges:
        if a == b:
            raise Unsupported('self loop')
    for anchor, attrs in link.non_edges:
        if not isinstance(anchor, str):
            raise Unsupported('non-edge anchor %r' % (anchor,))
        if anchor in link.nodes:
            ao = out['nodes'][keys.index(anchor)]['order']
            if ao != {'k': 'num', 'v': 0}:
                raise Unsupported('non-edge anchored outside the reference residue (partner order reading not documented)')
        o = attrs.get('order', 0)
        if isinstance(o, bool) or not isinstance(o, numbers.Integral):
            raise Unsupported('non-edge partner order %r' % (o,))
        out['nonedges'].append({'from': anchor, 'order': int(o), 'preds': abstract_preds(attrs, TEMPLATE_IGNORE),
                                'mods': abstract_mods_condition(attrs)})
    for pat in link.patterns:
        row = []
        for k, attrs in pat:
            if k not in link.nodes:
                raise Unsupported('pattern atom %r not in the link' % (k,))
            row.append({'key': k, 'preds': abstract_preds(attrs, TEMPLATE_IGNORE), 'mods': abstract_mods_condition(attrs)})
        out['patterns'].append(row)
    out['molmeta'] = abstract_preds(link.molecule_meta)
    for t, lst in link.interactions.items():
        for it in lst:
            if any(a not in link.nodes for a in it.atoms):
                raise Unsupported('interaction on an atom that is not in the link')
            params, fmt = [], []
            for i, p in enumerate(it.parameters):
                if isinstance(p, LinkParameterEffector):
                    kind = EFFECTOR_KINDS.get(type(p).__name__)
                    if kind is None or any(a not in link.nodes for a in p.keys):
                        raise Unsupported('parameter effector %s' % type(p).__name__)
                    params.append([kind] + list(p.keys))
                    if p.format is not None:
                        fmt.append([str(i), str(p.format)])
                elif callable(p):
                    raise Unsupported('callable parameter')
                else:
                    params.append(['p', enc(p)])
            out['inters'].append({'type': t, 'atoms': list(it.atoms), 'params': params, 'ver': _version(it.meta),
                                  'meta': _meta(it.meta), 'fmt': fmt})
    for t, lst in link.removed_interactions.items():
        for it in lst:
            if any(a not in link.nodes for a in it.atoms):
                raise Unsupported('removal on an atom that is not in the link')
            if any(callable(p) for p in it.parameters):
                raise Unsupported('removal template with a computed parameter')
            atom_attrs = list(getattr(it, 'atom_attrs', [{} for _ in it.atoms]))
            out['removes'].append({'type': t, 'atoms': list(it.atoms), 'params': [['p', enc(p)] for p in it.parameters],
                                   'atom_attrs': [abstract_preds(a) for a in atom_attrs], 'meta': abstract_preds(it.meta)})
    cond_keys = template_keys(out, own_only=True)
    for r in out['replaces']:
        if r['attr'] in cond_keys:
            raise Unsupported('the link replaces an attribute it matches on (outcome depends on the lazy matcher)')
    return out


def _version(meta):
    v = meta.get('version', 0)
    if isinstance(v, bool) or not isinstance(v, numbers.Integral):
        raise Unsupported('interaction version %r' % (v,))
    return int(v)


def _meta(meta):
    out = []
    for k, v in meta.items():
        if not isinstance(k, str):
            raise Unsupported('meta key %r' % (k,))
        try:
            out.append([k, enc(v)])
        except Unsupported:
            out.append([k, '#repr:%r' % (v,)])
    return out


def template_keys(L, own_only=False):
    """Attribute keys the conditions of a link read (own_only: conditions of the matcher, not the removal templates)."""
    keys = set()
    for n in L['nodes']:
        keys.update(p['key'] for p in n['preds'])
    for ne in L['nonedges']:
        keys.update(p['key'] for p in ne['preds'])
    for pat in L['patterns']:
        for x in pat:
            keys.update(p['key'] for p in x['preds'])
    if not own_only:
        for rm in L['removes']:
            for a in rm['atom_attrs']:
                keys.update(p['key'] for p in a)
        keys.update(r['attr'] for r in L['replaces'])
    return keys


def link_name(link, idx):
    parts = sorted(set([t for t, v in link.interactions.items() if v] + ['-' + t for t, v in link.removed_interactions.items() if v]))
    if any('replace' in d for _, d in link.nodes(data=True)):
        parts.append('replace')
    return '#%d (%s) %s' % (idx, ' '.join(str(k) for k in link.nodes), ','.join(parts))


# ------------------------------------------------------------------ molecule state
class GeoFloat(float):
    geo_kind = None
    geo_fmt = None


class GeoStr(str):
    geo_kind = None
    geo_fmt = None


def abstract_state(mol, K, MK, unit_pm):
    """Live molecule -> (M of the spec, python-side list of geometry-derived values)."""
    import numpy as np
    nodes, pos = [], []
    for n, d in mol.nodes.items():
        if isinstance(n, bool) or not isinstance(n, numbers.Integral):
            raise Unsupported('node key %r' % (n,))
        mods = []
        for m in d.get('modifications', None) or []:
            if isinstance(m.name, str) or any(not isinstance(x, str) for x in m.name):
                raise Unsupported('modification name %r' % (m.name,))
            mods.append(list(m.name))
        nodes.append({'id': int(n), 'resid': int(d['resid']), 'attrs': [[k, enc(d[k])] for k in K if k in d], 'mods': mods})
        if d.get('position') is None or not np.all(np.isfinite(np.asarray(d['position'], dtype=float))):
            continue                                     # an atom without coordinates has no entry in M.pos
        p = np.asarray(d['position'], dtype=float) * 1000.0 / unit_pm
        q = np.round(p)
        if np.max(np.abs(p - q)) > 1e-6:
            raise Unsupported('position of atom %r is not on the %d pm lattice' % (n, unit_pm))
        pos.append([int(n)] + [int(x) for x in q])
    inters, geo = [], []
    for t, lst in mol.interactions.items():
        for it in lst:
            params = []
            for i, p in enumerate(it.parameters):
                if isinstance(p, (GeoFloat, GeoStr)):
                    params.append(['geo', p.geo_kind])
                    geo.append({'type': t, 'atoms': [int(a) for a in it.atoms], 'ver': _version(it.meta), 'idx': i + 1, 'kind': p.geo_kind,
                                'value': float(p) if isinstance(p, GeoFloat) else str(p), 'fmt': p.geo_fmt})
                elif callable(p):
                    params.append(['p', '#callable:%s' % type(p).__name__])
                else:
                    try:
                        params.append(['p', enc(p)])
                    except Unsupported:
                        params.append(['p', '#repr:%r' % (p,)])
            inters.append({'type': t, 'atoms': [int(a) for a in it.atoms], 'params': params, 'ver': _version(it.meta), 'meta': _meta(it.meta)})
    M = {'nodes': nodes, 'edges': [[int(a), int(b)] for a, b in mol.edges], 'meta': [[k, enc(mol.meta[k])] for k in MK if k in mol.meta],
         'pos': pos, 'inters': inters}
    return M, geo


# ------------------------------------------------------------------ recorder
def record_run(mol, ljson, K, MK, unit_pm, seg_len=None, with_before=True, proc=None, decoy=None):
    """Run the real DoLinks.run_molecule on `mol` (its force field holds exactly the links abstracted in `ljson`).
    Returns a list of run events (one per segment of `seg_len` consecutive links)."""
    import vermouth.processors.do_links as dl
    from vermouth.molecule import LinkParameterEffector
    links = list(mol.force_field.links)
    assert len(links) == len(ljson)
    index = {id(l): i for i, l in enumerate(links)}
    n = len(links)
    seg_len = seg_len or max(n, 1)
    starts = set(range(0, n, seg_len))
    snaps, steps, snaps_at = {}, [], {}
    orig_match, orig_call = dl.match_link, LinkParameterEffector.__call__

    def spy(molecule, link):
        if molecule is not mol:          # the decoy molecule that shares the system (and the force field) with `mol`
            yield from orig_match(molecule, link)
            return
        i = index[id(link)]
        snaps_at[i] = abstract_state(molecule, K, MK, unit_pm)
        if i in starts:
            snaps[i] = snaps_at[i]
        step = {'i': i, 'before': snaps_at[i][0]['nodes'] if with_before else [], 'matches': []}
        steps.append(step)
        for match in orig_match(molecule, link):
            step['matches'].append(sorted([k, int(v)] for k, v in match.items()))
            yield match

    def tagged(self, molecule, match):
        res = orig_call(self, molecule, match)
        out = GeoStr(res) if isinstance(res, str) else GeoFloat(res)
        out.geo_kind = EFFECTOR_KINDS.get(type(self).__name__, 'unknown')
        out.geo_fmt = self.format
        return out
    dl.match_link = spy
    LinkParameterEffector.__call__ = tagged
    try:
        # `proc`: one processor object used for many molecules (nothing of an earlier molecule may stick to it)
        if decoy is not None:
            # as martinize2 does: ONE processor over a SYSTEM; `mol` comes second, after a molecule of the same force field whose
            # molecule-level attributes differ (nothing decided for the first molecule may be reused for the second)
            from vermouth.system import System
            system = System(force_field=mol.force_field)
            system.molecules = [decoy, mol]
            (proc if proc is not None else dl.DoLinks()).run_system(system)
            if len(system.molecules) != 2 or system.molecules[1] is not mol:
                raise tlc.MachineryError('run_system did not keep the two molecules in place')
        else:
            (proc if proc is not None else dl.DoLinks()).run_molecule(mol)
    finally:
        dl.match_link = orig_match
        LinkParameterEffector.__call__ = orig_call
    snaps[n] = abstract_state(mol, K, MK, unit_pm)
    called = [s['i'] for s in steps]
    if called != sorted(set(called)):
        raise tlc.MachineryError('match_link was not called at most once per link in order: %r' % called)
    if called != list(range(n)):
        # a link for which the implementation never looked for placements found none: that is an observation, not a machinery
        # problem. Nothing changes the molecule between two looked-at links, so the state before a skipped link is the state before
        # the next one that was looked at (the final state when there is none).
        final_nodes = snaps[n][0]['nodes'] if with_before else []
        by_i = {s['i']: s for s in steps}
        filled, nxt = [], final_nodes
        for i in reversed(range(n)):
            if i in by_i:
                nxt = by_i[i]['before']
                filled.append(by_i[i])
            else:
                filled.append({'i': i, 'before': nxt, 'matches': []})
        steps = filled[::-1]
        for a in sorted(starts):
            if a not in snaps:      # segment start was skipped: state there = state at the next looked-at link
                later = [i for i in called if i > a]
                snaps[a] = snaps_at[later[0]] if later else snaps[n]
    events = []
    bounds = sorted(starts) + [n]
    for a, b in zip(bounds, bounds[1:]):
        M, _ = snaps[a]
        F, geo = snaps[b]
        events.append({'kind': 'run', 'M': M, 'links': ljson[a:b],
                       'steps': [{'link': s['i'] - a + 1, 'before': s['before'], 'matches': s['matches']} for s in steps[a:b]],
                       'final': {'ids': [x['id'] for x in F['nodes']], 'nodes': F['nodes'], 'inters': F['inters']},
                       'py': {'geo': geo, 'unit_pm': unit_pm, 'segment': [a, b]}})
    if n == 0:
        M, geo = snaps[0]
        events.append({'kind': 'run', 'M': M, 'links': [], 'steps': [], 'final': {'ids': [x['id'] for x in M['nodes']], 'nodes': M['nodes'],
                       'inters': M['inters']}, 'py': {'geo': geo, 'unit_pm': unit_pm, 'segment': [0, 0]}})
    return events


# ------------------------------------------------------------------ judge
TLC_KEYS = ('kind', 'M', 'links', 'steps', 'final', 'o1', 'r1', 'o2', 'r2', 'res')


def _judge(shard):
    work = tlc.scratch('c05_')
    tf = tlc.write_json(work, 'trace.json', [{k: e[k] for k in e if k in TLC_KEYS} for e in shard])
    res = tlc.run('Trace_Links', 'SPECIFICATION Spec\n', dump=True, env={'TRACE_FILE': tf}, workdir=work, workers=1, timeout=3400)
    out = {}
    for st in res.states():
        if st['verdict']['v'] != 'pending':
            out[st['tid']] = (st['verdict']['v'], [dict(g) for g in st['verdict']['geo']])
    return res.distinct, res.generated, out, res.wall


def geo_expected(tok, unit_pm):
    """Exact invariants of the model -> the float the statement asks for (sqrt / acos / atan2 are evaluated here, on TLC's integers).
    None: the model says the value is not defined (degenerate) or not computed (out of range / carried over from an earlier segment)."""
    kind = tok[1]
    if len(tok) <= 3 and (len(tok) == 2 or tok[2] in ('degenerate', 'out-of-range', 'no-position')):
        return None
    if kind == 'dist':
        return math.sqrt(int(tok[2])) * unit_pm / 1000.0
    cls = tok[2]
    if cls != 'other':
        return float(cls)
    if kind == 'angle':
        d, u2, v2 = int(tok[3]), int(tok[4]), int(tok[5])
        return math.degrees(math.acos(max(-1.0, min(1.0, d / math.sqrt(u2 * v2)))))
    s, bc2, c = int(tok[3]), int(tok[4]), int(tok[5])
    return math.degrees(math.atan2(s * math.sqrt(bc2), c))


def geo_close(kind, value, expected):
    """value: float, or the formatted text (then the tolerance widens by half a unit of its last printed digit)."""
    slack = 0.0
    if isinstance(value, str):
        try:
            num = float(value)
        except ValueError:
            return False
        slack = 0.5 * 10.0 ** -(len(value.split('.')[1]) if '.' in value else 0)
        value = num
    if kind == 'dist':
        return abs(value - expected) <= DIST_RTOL * max(1.0, expected) + slack
    diff = abs(value - expected)
    if kind in ('dih', 'dihp'):
        diff = abs((value - expected + 180.0) % 360.0 - 180.0)          # +180 and -180 are the same angle
    return diff <= ANGLE_TOL + slack


def check_geometry(e, tokens, stats):
    """Match the recorded geometry-derived values of the final table against TLC's exact invariants. Returns a reason or ''."""
    unit = e['py']['unit_pm']
    want = {}
    for g in tokens:
        want.setdefault((g['type'], tuple(g['atoms']), g['ver'], g['idx']), []).append(tuple(g['tok']))
    have = {}
    for g in e['py']['geo']:
        have.setdefault((g['type'], tuple(g['atoms']), g['ver'], g['idx']), []).append(g)
    if set(want) != set(have):
        return 'geometry-derived parameters on other interactions than in the model: %r' % sorted(set(want) ^ set(have))[:3]
    for key, toks in want.items():
        exps = []
        for tok in toks:
            x = geo_expected(tok, unit)
            if len(tok) == 2:
                cls = 'carried-over-from-earlier-segment'
            elif tok[1] == 'dist':
                cls = 'value' if x is not None else tok[2]
            else:
                cls = tok[2]
            stats[tok[1] + ':' + cls] += 1
            exps.append(x)
        if any(x is None for x in exps):
            continue
        for g in have[key]:
            if (g['fmt'] is not None) != isinstance(g['value'], str):
                return 'geometry-derived parameter %s%r idx %d: format %r declared, value %r' % (key[0], key[1], key[3], g['fmt'], g['value'])
            if not any(geo_close(g['kind'], g['value'], x) for x in exps):
                return 'geometry-derived parameter %s%r idx %d: real code gave %r, exact value from the matched atoms %r (%r)' % (
                    key[0], key[1], key[3], g['value'], exps, toks)
    return ''


def judge_events(events, ev, vd, label='TRACE Trace_Links', nproc=None):
    """Returns per-event verdict list; records violations."""
    import collections
    nproc = nproc or tlc.NCPU
    order = sorted(range(len(events)), key=lambda i: -_weight(events[i]))
    shards_idx = [order[k::nproc] for k in range(nproc)]
    shards_idx = [s for s in shards_idx if s]
    with mp.Pool(len(shards_idx)) as pool:
        outs = pool.map(_judge, [[events[i] for i in s] for s in shards_idx])
    verdicts = [None] * len(events)
    stats = collections.Counter()
    wall = 0.0
    for idxs, (d, g, res, w) in zip(shards_idx, outs):
        ev.states += d
        ev.transitions += g
        wall = max(wall, w)
        for pos, i in enumerate(idxs, 1):
            e = events[i]
            ev.traces += 1
            ev.evaluations += 1
            v, geo = res.get(pos, ('no-verdict', []))
            if e.get('err'):
                v = 'DoLinks raised ' + e['err']
            elif v == 'no-verdict':
                raise tlc.MachineryError('TLC returned no verdict for an event')
            if v == 'ok' and e['kind'] == 'run':
                why = check_geometry(e, geo, stats)
                if why:
                    v = 'geometry-parameter-differs: ' + why
            verdicts[i] = v
            if v != 'ok':
                vd.violation('trace-rejected', e, '%s: %s' % (e.get('names', e.get('origin', e['kind'])), v))
    ev.tlc_runs.append({'run': label, 'events': len(events), 'tlc_processes': len(shards_idx), 'slowest_shard_wall_s': round(wall, 1)})
    return verdicts, stats


def _weight(e):
    if e['kind'] != 'run':
        return 1
    return (len(e['M']['nodes']) + 5) * (len(e['links']) + 1) + len(e['M']['inters'])


# ------------------------------------------------------------------ the real pipeline
_ENV = {}


def env():
    """Per process: the CLI module (for read_system / pdb_to_universal), all shipped force fields and mappings."""
    if not _ENV:
        import logging
        logging.disable(logging.CRITICAL)
        from pathlib import Path
        import vermouth
        import vermouth.forcefield
        from vermouth.map_input import read_mapping_directory
        path = os.path.join(REPO, 'bin', 'martinize2')
        loader = importlib.machinery.SourceFileLoader('martinize2_cli_verif_c05', path)
        spec = importlib.util.spec_from_loader(loader.name, loader)
        cli = importlib.util.module_from_spec(spec)
        loader.exec_module(cli)
        ffs = vermouth.forcefield.find_force_fields(Path(vermouth.DATA_PATH) / 'force_fields')
        _ENV.update(cli=cli, ffs=ffs, maps=read_mapping_directory(Path(vermouth.DATA_PATH) / 'mappings', ffs))
    return _ENV


def structures():
    return sorted(d for d in os.listdir(TIER0) if os.path.exists(os.path.join(TIER0, d, 'aa.pdb')))


def n_residues(struct):
    seen = set()
    with open(os.path.join(TIER0, struct, 'aa.pdb')) as fh:
        for line in fh:
            if line.startswith('ATOM'):
                seen.add((line[21], line[22:27]))
    return len(seen)


def build_cg(job):
    """The real pipeline of bin/martinize2 in-process up to (not including) DoLinks. Returns the system."""
    from pathlib import Path
    import vermouth
    from vermouth import selectors
    from vermouth.dssp.dssp import AnnotateResidues, AnnotateMartiniSecondaryStructures
    E = env()
    cli = E['cli']
    system = cli.read_system(Path(os.path.join(TIER0, job['struct'], 'aa.pdb')), modelidx=1)
    mods = [['cter', 'COOH-ter'], ['nter', 'NH2-ter']] if job.get('nt') else [['cter', 'C-ter'], ['nter', 'N-ter']]
    system = cli.pdb_to_universal(system, delete_unknown=True, force_field=E['ffs']['charmm'], modifications=mods, mutations=[])
    if job.get('ss'):
        AnnotateResidues(attribute='aasecstruct', sequence=job['ss'], molecule_selector=selectors.is_protein).run_system(system)
        AnnotateMartiniSecondaryStructures().run_system(system)
    elif job.get('cgss'):                       # the attribute the links read, set residue by residue (as -collagen does with "F")
        AnnotateResidues(attribute='cgsecstruct', sequence=job['cgss'], molecule_selector=selectors.is_protein).run_system(system)
    meta = job['meta']
    vermouth.SetMoleculeMeta(extdih=meta['extdih']).run_system(system)
    vermouth.SetMoleculeMeta(scfix=meta['scfix']).run_system(system)
    vermouth.SetMoleculeMeta(idr=meta['idr']).run_system(system)
    if job.get('cys'):
        vermouth.AddCysteinBridgesThreshold(job['cys']).run_system(system)
    to_ff = E['ffs'][job['ff']]
    vermouth.DoMapping(mappings=E['maps'], to_ff=to_ff, delete_unknown=True, attribute_keep=('cgsecstruct', 'chain', 'secstruct'),
                       attribute_must=('resname',), attribute_stash=('resid',)).run_system(system)
    vermouth.DoAverageBead(ignore_missing_graphs=True).run_system(system)
    if meta['idr']:
        vermouth.AnnotateIDRs(id_regions=[tuple(r) for r in job.get('idr_regions', [])]).run_system(system)
    return system


def prepare_molecule(mol, job):
    """Input preparation for DoLinks: positions snapped to the lattice; optional monotone renumbering with gaps."""
    import numpy as np
    for n, d in mol.nodes.items():
        if d.get('position') is None or not np.all(np.isfinite(np.asarray(d['position'], dtype=float))):
            continue
        p = np.asarray(d['position'], dtype=float)
        d['position'] = np.round(p * 1000.0 / REAL_UNIT_PM) * (REAL_UNIT_PM / 1000.0)
    gaps = job.get('gaps')
    if gaps:
        order, new = [], {}
        for n, d in mol.nodes.items():
            if d['resid'] not in new:
                new[d['resid']] = None
                order.append(d['resid'])
        cur = job.get('start', 1)
        for i, r in enumerate(order):
            if i:
                cur += 1 + gaps.get(str(i), 0)
            new[r] = cur
        for n, d in mol.nodes.items():
            d['resid'] = new[d['resid']]


def real_job(job):
    """One structure x force field x variant -> events of every molecule, plus the bookkeeping for the evidence."""
    try:
        system = build_cg(job)
    except Exception as exc:      # noqa
        return {'job': job, 'error': 'pipeline before DoLinks failed: %r' % (exc,), 'events': []}
    ff = system.force_field
    ljson, kept, skipped = [], [], []
    for i, link in enumerate(ff.links):
        try:
            ljson.append(abstract_link(link))
            kept.append(link)
        except Unsupported as why:
            skipped.append([link_name(link, i), str(why)])
    names = [link_name(l, ff.links.index(l)) for l in kept]
    K = sorted(set().union(*[template_keys(L) for L in ljson]) if ljson else set())
    MK = sorted({p['key'] for L in ljson for p in L['molmeta']})
    ff2 = copy.copy(ff)
    ff2.links = kept
    out = {'job': job, 'events': [], 'links_total': len(ff.links), 'links_judged': len(kept), 'skipped': skipped, 'names': names,
           'molecules': [], 'error': ''}
    for mi, mol in enumerate(system.molecules):
        try:
            prepare_molecule(mol, job)
            mol._force_field = ff2
            events = record_run(mol, ljson, K, MK, REAL_UNIT_PM, seg_len=job.get('seg_len', 4), with_before=False)
        except Unsupported as why:
            out['molecules'].append({'molecule': mi, 'beads': len(mol), 'skipped': str(why)})
            continue
        except tlc.MachineryError:
            raise
        except Exception as exc:      # noqa
            events = [{'kind': 'run', 'M': {'nodes': [], 'edges': [], 'meta': [], 'pos': [], 'inters': []}, 'links': [], 'steps': [],
                       'final': {'ids': [], 'nodes': [], 'inters': []}, 'py': {'geo': [], 'unit_pm': REAL_UNIT_PM, 'segment': [0, 0]},
                       'err': repr(exc)[:300]}]
        per_link = [0] * len(kept)
        for e in events:
            a = e['py']['segment'][0]
            e['origin'] = dict(job, molecule=mi)
            e['names'] = names[a:e['py']['segment'][1]]
            for s in e['steps']:
                per_link[a + s['link'] - 1] += len(s['matches'])
        out['events'].extend(events)
        out['molecules'].append({'molecule': mi, 'beads': len(mol), 'placements': sum(per_link), 'per_link': per_link,
                                 'geometry_values': len(events[-1]['py']['geo']) if events else 0})
    return out


def random_ss(rng, n, alphabet='HHHEECCTS'):
    out = ''
    while len(out) < n:
        out += rng.choice(alphabet) * rng.randint(2, 8)
    return out[:n]


MAIN_FFS = ('martini3001', 'martini22', 'elnedyn22')
OTHER_FFS = ('martini22p', 'elnedyn22p', 'martini30b32', 'martini3IDP', 'elnedyn21')      # martini30dev has no mapping from charmm


def random_variant(rng, n, ff):
    v = {'meta': {'extdih': rng.random() < 0.5, 'scfix': rng.random() < 0.7, 'idr': False}}
    if rng.random() < 0.5:
        v['ss'] = random_ss(rng, n)
    else:
        v['cgss'] = random_ss(rng, n, 'HHEFFCTS123')
    if rng.random() < 0.5:
        v['gaps'] = {str(rng.randint(1, max(1, n - 1))): rng.choice([1, 2, 5]) for _ in range(rng.randint(1, 3))}
        v['start'] = rng.choice([1, 1, 7, 120, -3])
    if rng.random() < 0.3:
        v['nt'] = True
    if rng.random() < 0.4:
        v['cys'] = rng.choice([0.5, 1.0, 2.5])
    if ff in ('martini3001', 'martini3IDP') and n >= 4 and rng.random() < 0.4:
        a = rng.randint(1, n - 2)
        v['meta']['idr'] = True
        v['idr_regions'] = [[a, min(n, a + rng.randint(2, 8))]]
    return v


def make_jobs(tier, seed):
    rng = random.Random(seed * 7919 + 5)
    jobs = []
    if tier == 'quick':
        s = 'mini-protein3_trp-cage'
        n = n_residues(s)
        jobs.append({'struct': s, 'ff': 'martini3001', 'ss': random_ss(rng, n), 'meta': {'extdih': False, 'scfix': True, 'idr': False},
                     'gaps': {str(rng.randint(3, n - 3)): 2}, 'seg_len': 3})
        return jobs
    for s in structures():
        n = n_residues(s)
        for ff in MAIN_FFS + OTHER_FFS:
            variants = [{'ss': 'C' * n, 'meta': {'extdih': False, 'scfix': True, 'idr': False}},
                        {'cgss': 'F' * n, 'meta': {'extdih': True, 'scfix': True, 'idr': False}}]
            variants += [random_variant(rng, n, ff) for _ in range(10 if ff in MAIN_FFS else 2)]
            for v in variants:
                jobs.append(dict(v, struct=s, ff=ff, seg_len=4))
    return jobs
