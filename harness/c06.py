"""C06 - subgraph matching is sound, complete and symmetry-reduced.

spec/SubIso.tla        declarative induced embeddings, pattern automorphisms, classes modulo Aut(H), maximum common
                       induced subgraphs; JudgeIso / JudgeLcs evaluated by TLC on recorded outputs of ISMAGS
spec/Trace_SubIso.tla  batch wrapper

Exhaustive small scope: EVERY labelled pattern graph on <= 3 (4) nodes x EVERY labelled graph on <= 4 (5) nodes, and all
2-colourings for the smaller sizes, each run through find_isomorphisms / largest_common_subgraph with symmetry off and on;
plus structured families on 5-8 nodes (cycles, stars, complete bipartite, paths, two equal arms, bow-tie, disjoint unions,
isolated nodes), random sparse renumberings, node and edge colourings.  TLC decides every predicate."""
import itertools
import multiprocessing as mp
import random

from . import common, tlc

PID = 'C06'


def run_ismags(G, H, mode, sym, cache=None, pre=None):
    """G, H: dict(nodes=[(id, colour)], edges=[(a, b, colour)]). Returns list of mappings [[g, h], ...] or raises.
    pre: another query made on the SAME matcher object first ('iso' = all isomorphisms, 'sub' = subgraph_is_isomorphic,
    'lcs' = largest common subgraph); its result is discarded - a matcher answers every query as a fresh one would."""
    import networkx as nx
    from vermouth.ismags import ISMAGS

    def build(d):
        g = nx.Graph()
        for n, c in d['nodes']:
            g.add_node(n, c=c)
        for a, b, c in d['edges']:
            g.add_edge(a, b, c=c)
        return g
    g, h = build(G), build(H)
    coloured_nodes = len({c for _, c in G['nodes'] + H['nodes']}) > 1
    coloured_edges = len({c for *_, c in G['edges'] + H['edges']}) > 1
    nm = (lambda a, b: a['c'] == b['c']) if coloured_nodes or G.get('force_match') else None
    em = (lambda a, b: a['c'] == b['c']) if coloured_edges or G.get('force_match') else None
    ism = ISMAGS(g, h, node_match=nm, edge_match=em, cache=cache)
    if pre == 'iso':
        list(ism.find_isomorphisms(symmetry=not sym))
    elif pre == 'sub':
        ism.subgraph_is_isomorphic()
    elif pre == 'lcs':
        list(ism.largest_common_subgraph(symmetry=sym))
    it = ism.find_isomorphisms(symmetry=sym) if mode == 'iso' else ism.largest_common_subgraph(symmetry=sym)
    return [sorted([gn, hn] for gn, hn in m.items()) for m in it]


def all_graphs(n, base=1):
    nodes = list(range(base, base + n))
    pairs = list(itertools.combinations(nodes, 2))
    for mask in range(1 << len(pairs)):
        yield nodes, [p for i, p in enumerate(pairs) if mask >> i & 1]


def mk(nodes, edges, ncol=None, ecol=None):
    return {'nodes': [[n, (ncol or {}).get(n, 0)] for n in nodes],
            'edges': [[a, b, (ecol or {}).get((a, b), 0)] for a, b in edges]}


def relabel(d, mapping):
    return {'nodes': [[mapping[n], c] for n, c in d['nodes']],
            'edges': [[min(mapping[a], mapping[b]), max(mapping[a], mapping[b]), c] for a, b, c in d['edges']]}


def small_scope(tier):
    hmax, gmax = (3, 4) if tier == 'quick' else (4, 5)
    pats = [mk(n, e) for k in range(1, hmax + 1) for n, e in all_graphs(k)]
    graphs = [mk(n, e) for k in range(1, gmax + 1) for n, e in all_graphs(k, base=11)]
    for H in pats:
        for G in graphs:
            yield G, H, 'plain<=%d/%d' % (hmax, gmax)
    # two node colours, smaller sizes
    hm, gm = (2, 3) if tier == 'quick' else (3, 4)
    for k in range(1, hm + 1):
        for n, e in all_graphs(k):
            for cols in itertools.product([0, 1], repeat=k):
                H = mk(n, e, dict(zip(n, cols)))
                for kk in range(1, gm + 1):
                    for gn, ge in all_graphs(kk, base=11):
                        for gcols in itertools.product([0, 1], repeat=kk):
                            if tier == 'quick' and kk == gm and sum(gcols) not in (1, 2):
                                continue
                            yield mk(gn, ge, dict(zip(gn, gcols))), H, 'node-coloured'
    # two edge colours on triangles/paths
    for n, e in all_graphs(3):
        if len(e) < 2:
            continue
        for ec in itertools.product([0, 1], repeat=len(e)):
            H = mk(n, e, None, dict(zip(e, ec)))
            for gn, ge in all_graphs(4 if tier != 'quick' else 3, base=11):
                if len(ge) < 2:
                    continue
                for gec in itertools.product([0, 1], repeat=len(ge)):
                    if tier == 'quick' and sum(gec) > 2:
                        continue
                    yield mk(gn, ge, None, dict(zip(ge, gec))), H, 'edge-coloured'


def cycle(n, base=1):
    ns = list(range(base, base + n))
    return ns, [(ns[i], ns[(i + 1) % n]) if ns[i] < ns[(i + 1) % n] else (ns[(i + 1) % n], ns[i]) for i in range(n)]


def path(n, base=1):
    ns = list(range(base, base + n))
    return ns, [(ns[i], ns[i + 1]) for i in range(n - 1)]


def star(n, base=1):
    ns = list(range(base, base + n + 1))
    return ns, [(ns[0], x) for x in ns[1:]]


def bipartite(a, b, base=1):
    left = list(range(base, base + a))
    right = list(range(base + a, base + a + b))
    return left + right, [(x, y) for x in left for y in right]


def union(*gs):
    nodes, edges = [], []
    off = 0
    for ns, es in gs:
        m = {n: i + off + 1 for i, n in enumerate(ns)}
        nodes += [m[n] for n in ns]
        edges += [(min(m[a], m[b]), max(m[a], m[b])) for a, b in es]
        off += len(ns)
    return nodes, edges


def structured(rng, count):
    fams = {
        'cycle': lambda: cycle(rng.randint(3, 6)), 'path': lambda: path(rng.randint(2, 5)), 'star': lambda: star(rng.randint(2, 4)),
        'bipartite': lambda: bipartite(rng.randint(1, 2), rng.randint(2, 3)),
        'two-arms': lambda: (list(range(1, 6)), [(1, 2), (2, 3), (1, 4), (4, 5)]),
        'bowtie': lambda: (list(range(1, 6)), [(1, 2), (1, 3), (2, 3), (3, 4), (3, 5), (4, 5)]),
        'union': lambda: union(path(2), path(2)), 'union-iso': lambda: union(cycle(3), (list([1]), [])),
        'isolated': lambda: union(path(rng.randint(2, 3)), ([1], []), ([1], [])),
    }
    names = sorted(fams)
    for _ in range(count):
        fh, fg = rng.choice(names), rng.choice(names)
        hn, he = fams[fh]()
        gn, ge = fams[fg]()
        if rng.random() < 0.5:       # make the graph contain the pattern plus something
            gn, ge = union((hn, he), fams[rng.choice(names)]())
        if len(gn) > 8 or len(hn) > 6:
            continue
        ncol_h = ncol_g = ecol_h = ecol_g = None
        r = rng.random()
        if r < 0.3:
            ncol_h = {n: rng.randint(0, 1) for n in hn}
            ncol_g = {n: rng.randint(0, 1) for n in gn}
        elif r < 0.5:
            ecol_h = {e: rng.randint(0, 1) for e in he}
            ecol_g = {e: rng.randint(0, 1) for e in ge}
        H, G = mk(hn, he, ncol_h, ecol_h), mk(gn, ge, ncol_g, ecol_g)
        # any node numbering: sparse shuffled integers
        mh = dict(zip(hn, rng.sample(range(1, 60), len(hn))))
        mg = dict(zip(gn, rng.sample(range(100, 190), len(gn))))
        yield relabel(G, mg), relabel(H, mh), 'structured:%s-in-%s' % (fh, fg)


def coloured_rings(rng):
    """Rings of 4..8 atoms with PERIODIC edge / node colourings (alternating bond orders, every third atom different, ...):
    the colouring cuts the symmetry group of the ring down to a proper subgroup. Pattern in itself and in itself plus a tail."""
    for n in range(4, 9):
        for what in ('edge', 'node'):
            for period, phase in ((2, 0), (3, 0), (4, 0), (n, 1)):
                if period > n:
                    continue
                hn, he = cycle(n)
                col = lambda i: 1 if i % period == phase % period else 0      # noqa: E731
                ecol = {e: col(i) for i, e in enumerate(he)} if what == 'edge' else None
                ncol = {x: col(i) for i, x in enumerate(hn)} if what == 'node' else None
                H = mk(hn, he, ncol, ecol)
                H['force_match'] = True
                for tail in (0, 1):
                    gn, ge = list(hn), list(he)
                    gcol_e, gcol_n = dict(ecol or {}), dict(ncol or {})
                    if tail:
                        gn = gn + [n + 1]
                        ge = ge + [(1, n + 1)]
                        gcol_e[(1, n + 1)] = 0
                        gcol_n[n + 1] = 0
                    G = mk(gn, ge, gcol_n if what == 'node' else None, gcol_e if what == 'edge' else None)
                    G['force_match'] = True
                    mh = dict(zip(hn, rng.sample(range(1, 60), len(hn))))
                    mg = dict(zip(gn, rng.sample(range(100, 190), len(gn))))
                    Gr, Hr = relabel(G, mg), relabel(H, mh)
                    Gr['force_match'] = Hr['force_match'] = True
                    yield Gr, Hr, 'ring%d-%s-period%d%s' % (n, what, period, '+tail' if tail else '')


def all_cases(tier, seed):
    rng = random.Random(seed)
    yield from small_scope(tier)
    yield from structured(rng, 150 if tier == 'quick' else 4000)
    for r in coloured_rings(rng):
        if tier != 'quick' or len(r[1]['nodes']) <= 6:
            yield r


def _collect_events(args):
    # every worker enumerates the cases itself and keeps its share (contiguous blocks of 50, dealt round-robin): the list of
    # all thorough cases is several GB once it is copied into 16 forked workers
    tier, seed, part, nparts = args
    cases = [c for i, c in enumerate(all_cases(tier, seed)) if (i // 50) % nparts == part]
    out = []
    # One symmetry cache shared by all matchers of this worker, as RepairGraph shares one across residues: a matcher must
    # give the same answers whatever other patterns were analysed before it (every third case runs without a cache).
    shared = {}
    for ci, (G, H, fam) in enumerate(cases):
        cache = None if ci % 3 == 2 else shared
        for mode in ('iso', 'lcs'):
            for sym in (False, True):
                try:
                    Y = run_ismags(G, H, mode, sym, cache)
                    err = ''
                except Exception as exc:      # noqa
                    Y, err = [], repr(exc)[:200]
                out.append({'G': G, 'H': H, 'mode': mode, 'sym': sym, 'Y': Y, 'fam': fam, 'err': err})
        if ci % 2 == 0:
            # query sequences on ONE matcher object: the earlier query must not change the later answer
            for pre, mode, sym in (('iso', 'lcs', ci % 4 == 0), ('sub', 'lcs', True), ('lcs', 'iso', ci % 4 == 0)):
                try:
                    Y = run_ismags(G, H, mode, sym, None, pre)
                    err = ''
                except Exception as exc:      # noqa
                    Y, err = [], repr(exc)[:200]
                out.append({'G': G, 'H': H, 'mode': mode, 'sym': sym, 'Y': Y, 'fam': fam + '/after-' + pre, 'err': err})
    return out


def _judge(shard):
    work = tlc.scratch('c06_')
    tf = tlc.write_json(work, 'trace.json', [{k: e[k] for k in ('G', 'H', 'mode', 'sym', 'Y')} for e in shard])
    res = tlc.run('Trace_SubIso', 'SPECIFICATION Spec\n', dump=True, env={'TRACE_FILE': tf}, workdir=work, workers=1, timeout=3400)
    return res.distinct, res.generated, {st['tid']: st['verdict'] for st in res.states() if st['verdict'] != 'pending'}


def _run_events(args):
    """One worker: run its share of the cases through ISMAGS, let TLC judge them in batches, return a summary (the events of
    the thorough tier do not fit in memory sixteen times over)."""
    import hashlib
    import json
    import shutil
    events = _collect_events(args)
    out = {'d': 0, 'g': 0, 'n': 0, 'fam': {}, 'nontrivial': set(), 'bad': [], 'sample': None}
    for lo in range(0, len(events), 6000):
        shard = events[lo:lo + 6000]
        work = tlc.scratch('c06_')
        try:
            tf = tlc.write_json(work, 'trace.json', [{k: e[k] for k in ('G', 'H', 'mode', 'sym', 'Y')} for e in shard])
            res = tlc.run('Trace_SubIso', 'SPECIFICATION Spec\n', dump=True, env={'TRACE_FILE': tf}, workdir=work, workers=1, timeout=3400)
            verdicts = {st['tid']: st['verdict'] for st in res.states() if st['verdict'] != 'pending'}
        finally:
            shutil.rmtree(work, ignore_errors=True)
        out['d'] += res.distinct
        out['g'] += res.generated
        for i, e in enumerate(shard, 1):
            out['n'] += 1
            out['fam'][e['fam']] = out['fam'].get(e['fam'], 0) + 1
            v = verdicts.get(i, 'no-verdict')
            if e['err']:
                v = 'matcher-raised ' + e['err']
            if len(e['H']['nodes']) >= 2 and len(e['G']['nodes']) >= 2:
                case = [e['G'], e['H'], e['mode'], e['sym']]
                out['nontrivial'].add(hashlib.sha1(json.dumps(common.jsonable(case), sort_keys=True).encode()).hexdigest()[:16])
            if v != 'ok':
                out['bad'].append(({k: e[k] for k in ('G', 'H', 'mode', 'sym', 'Y', 'fam')}, '%s symmetry=%s on %s: %s' % (e['mode'], e['sym'], e['fam'], v)))
        if out['sample'] is None and shard:
            out['sample'] = {k: shard[len(shard) // 2][k] for k in ('G', 'H', 'mode', 'sym', 'Y')}
    return out


def judge_events(events, ev, vd):
    """(selftest / replay) judge a small list of events in this process."""
    d, g, verdicts = _judge(events)
    ev.states += d
    ev.transitions += g
    fam = {}
    for i, e in enumerate(events, 1):
        ev.traces += 1
        ev.evaluations += 1
        fam[e['fam']] = fam.get(e['fam'], 0) + 1
        v = verdicts.get(i, 'no-verdict')
        if e['err']:
            v = 'matcher-raised ' + e['err']
        if len(e['H']['nodes']) >= 2 and len(e['G']['nodes']) >= 2:
            ev.nontrivial_case([e['G'], e['H'], e['mode'], e['sym']])
        if v != 'ok':
            vd.violation('trace-rejected', {k: e[k] for k in ('G', 'H', 'mode', 'sym', 'Y', 'fam')},
                         '%s symmetry=%s on %s: %s' % (e['mode'], e['sym'], e['fam'], v))
    return fam


def run(tier, seed, ev, vd):
    ev.rule = ('Exhaustive: all labelled patterns x all labelled graphs up to the bound (plain, 2 node colours, 2 edge colours) x '
               '{isomorphisms, largest common subgraph} x symmetry {off, on}; structured families with sparse random numbering. '
               'Non-trivial = both graphs have >= 2 nodes; distinct by (G, H, mode, symmetry).')
    ev.assumptions = ['TLC evaluates the declarative definitions correctly', 'two thirds of the matchers of a worker share one symmetry cache (history of patterns analysed before)', 'node/edge equality is equality of an integer colour',
                      'when nothing is common (maximum size 0) the answer of largest_common_subgraph is not constrained']
    nparts = tlc.NCPU * 2
    with mp.Pool(tlc.NCPU, maxtasksperchild=1) as pool:
        outs = pool.map(_run_events, [(tier, seed, part, nparts) for part in range(nparts)], chunksize=1)
    fam, nevents = {}, 0
    for o in outs:
        ev.states += o['d']
        ev.transitions += o['g']
        ev.traces += o['n']
        ev.evaluations += o['n']
        nevents += o['n']
        ev.nontrivial |= o['nontrivial']
        for k, n in o['fam'].items():
            fam[k] = fam.get(k, 0) + n
        for sc, detail in o['bad']:
            vd.violation('trace-rejected', sc, detail)
    ev.exhaustive = True
    ev.extra['events_by_family'] = fam
    ev.tlc_runs.append({'run': 'TRACE Trace_SubIso', 'events': nevents})
    smp = next((o['sample'] for o in outs if o['sample']), None)
    if smp:
        ev.sample({'kind': 'recorded ISMAGS run judged by TLC', 'event': smp})


def replay(sc):
    print('ISMAGS output now:', run_ismags(sc['G'], sc['H'], sc['mode'], sc['sym']))
    print('recorded        :', sc['Y'])
    return 0


def selftest(seed):
    G = mk([1, 2, 3], [(1, 2), (2, 3)])
    H = mk([7, 8], [(7, 8)])
    good = {'G': G, 'H': H, 'mode': 'iso', 'sym': False, 'Y': run_ismags(G, H, 'iso', False), 'fam': 's', 'err': ''}
    bad1 = dict(good, Y=good['Y'][:-1])
    bad2 = dict(good, sym=True)                                   # all four given as if symmetry-reduced
    bad3 = dict(good, Y=good['Y'] + [[[1, 7], [3, 8]]])          # not an edge
    ev = common.Evidence(PID, 'quick', seed)
    vd = common.Verdicts(PID, ev)
    judge_events([good, bad1, bad2, bad3], ev, vd)
    assert len(vd.violations) == 3, vd.violations
    print('selftest C06: tampered outputs rejected:', [d.split(': ')[-1] for k, p, d in vd.violations])
    import os
    for k, p, d in vd.violations:
        os.path.exists(p) and os.remove(p)
    return 0
