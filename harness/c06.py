"""C06 - subgraph matching is sound, complete and symmetry-reduced.

spec/SubIso.tla        declarative induced embeddings, pattern automorphisms, classes modulo Aut(H), maximum common
                       induced subgraphs; JudgeIso / JudgeLcs evaluated by TLC on recorded outputs of ISMAGS
spec/Trace_SubIso.tla  batch wrapper

Exhaustive small scope: EVERY labelled pattern graph on <= 3 (4) nodes x EVERY labelled graph on <= 4 (5) nodes, and all
2-colourings for the smaller sizes, each run through find_isomorphisms / largest_common_subgraph with symmetry off and on;
plus structured families on 5-8 nodes (cycles, stars, complete bipartite, paths, two equal arms, bow-tie, disjoint unions,
isolated nodes), random sparse renumberings, node and edge colourings.  TLC decides every predicate.

Extension (harness/c06_real.py, spec/SubIsoCert.tla): THE MATCHER AS THE LIBRARY USES IT - every block of the shipped charmm /
amber / gromos force fields up to 25 atoms (with and without hydrogens) as pattern and as graph: against itself, with 1-3 atoms
removed, with a neighbouring block's atoms attached (both directions), against another block of similar size; node equality =
element (repair_graph.make_reference, incl. its renumbering by sorted names) and = atom name (_patch_modification); HISTORIES
with one symmetry cache over the residues of a chain (same-skeleton twins CYS/SER, GLU/GLN, VAL/THR, LEU/ASP presented with
equal numbering, truncated later residues, junk names, hydrogens).  Beyond ~7 nodes TLC does not enumerate: it VERIFIES a
certificate (all isomorphisms / automorphisms listed by networkx VF2) and judges the answer against it; cases of at most 6/7
nodes are judged both ways and the verdicts must agree.  Matcher calls of this part run in killable child processes.
Widened synthetic scope: three node colours, patterns larger than the graph (largest common subgraph), isolated nodes on both
sides.  Self-loops are NOT generated (see ev.assumptions)."""
import itertools
import multiprocessing as mp
import random

from . import c06_real, common, tlc

PID = 'C06'
SIGNATURES = c06_real.SIGNATURES          # known finding C06-ring5-two-leaves (cyclopentane C5H10: ring rotation not found)


def run_ismags(G, H, mode, sym, cache=None, pre=None):
    """G, H: dict(nodes=[(id, colour)], edges=[(a, b, colour)]). Returns list of mappings [[g, h], ...] or raises.
    pre: another query made on the SAME matcher object first ('iso' = all isomorphisms, 'sub' = subgraph_is_isomorphic,
    'lcs' = largest common subgraph); its result is discarded - a matcher answers every query as a fresh one would."""
    import networkx as nx
    from vermouth.ismags import ISMAGS

    def build(d):
        g = nx.Graph()
        for n, c in d['nodes']:
            g.add_node(n, c=c)
        for a, b, c in d['edges']:
            g.add_edge(a, b, c=c)
        return g
    g, h = build(G), build(H)
    coloured_nodes = len({c for _, c in G['nodes'] + H['nodes']}) > 1
    coloured_edges = len({c for *_, c in G['edges'] + H['edges']}) > 1
    nm = (lambda a, b: a['c'] == b['c']) if coloured_nodes or G.get('force_match') else None
    em = (lambda a, b: a['c'] == b['c']) if coloured_edges or G.get('force_match') else None
    ism = ISMAGS(g, h, node_match=nm, edge_match=em, cache=cache)
    if pre == 'iso':
        list(ism.find_isomorphisms(symmetry=not sym))
    elif pre == 'sub':
        ism.subgraph_is_isomorphic()
    elif pre == 'lcs':
        list(ism.largest_common_subgraph(symmetry=sym))
    it = ism.find_isomorphisms(symmetry=sym) if mode == 'iso' else ism.largest_common_subgraph(symmetry=sym)
    return [sorted([gn, hn] for gn, hn in m.items()) for m in it]


def all_graphs(n, base=1):
    nodes = list(range(base, base + n))
    pairs = list(itertools.combinations(nodes, 2))
    for mask in range(1 << len(pairs)):
        yield nodes, [p for i, p in enumerate(pairs) if mask >> i & 1]


def mk(nodes, edges, ncol=None, ecol=None):
    return {'nodes': [[n, (ncol or {}).get(n, 0)] for n in nodes],
            'edges': [[a, b, (ecol or {}).get((a, b), 0)] for a, b in edges]}


def relabel(d, mapping):
    return {'nodes': [[mapping[n], c] for n, c in d['nodes']],
            'edges': [[min(mapping[a], mapping[b]), max(mapping[a], mapping[b]), c] for a, b, c in d['edges']]}


def small_scope(tier):
    hmax, gmax = (3, 4) if tier == 'quick' else (4, 5)
    pats = [mk(n, e) for k in range(1, hmax + 1) for n, e in all_graphs(k)]
    graphs = [mk(n, e) for k in range(1, gmax + 1) for n, e in all_graphs(k, base=11)]
    for H in pats:
        for G in graphs:
            yield G, H, 'plain<=%d/%d' % (hmax, gmax)
    # two node colours, smaller sizes
    hm, gm = (2, 3) if tier == 'quick' else (3, 4)
    for k in range(1, hm + 1):
        for n, e in all_graphs(k):
            for cols in itertools.product([0, 1], repeat=k):
                H = mk(n, e, dict(zip(n, cols)))
                for kk in range(1, gm + 1):
                    for gn, ge in all_graphs(kk, base=11):
                        for gcols in itertools.product([0, 1], repeat=kk):
                            if tier == 'quick' and kk == gm and sum(gcols) not in (1, 2):
                                continue
                            yield mk(gn, ge, dict(zip(gn, gcols))), H, 'node-coloured'
    # two edge colours on triangles/paths
    for n, e in all_graphs(3):
        if len(e) < 2:
            continue
        for ec in itertools.product([0, 1], repeat=len(e)):
            H = mk(n, e, None, dict(zip(e, ec)))
            for gn, ge in all_graphs(4 if tier != 'quick' else 3, base=11):
                if len(ge) < 2:
                    continue
                for gec in itertools.product([0, 1], repeat=len(ge)):
                    if tier == 'quick' and sum(gec) > 2:
                        continue
                    yield mk(gn, ge, None, dict(zip(ge, gec))), H, 'edge-coloured'


def cycle(n, base=1):
    ns = list(range(base, base + n))
    return ns, [(ns[i], ns[(i + 1) % n]) if ns[i] < ns[(i + 1) % n] else (ns[(i + 1) % n], ns[i]) for i in range(n)]


def path(n, base=1):
    ns = list(range(base, base + n))
    return ns, [(ns[i], ns[i + 1]) for i in range(n - 1)]


def star(n, base=1):
    ns = list(range(base, base + n + 1))
    return ns, [(ns[0], x) for x in ns[1:]]


def bipartite(a, b, base=1):
    left = list(range(base, base + a))
    right = list(range(base + a, base + a + b))
    return left + right, [(x, y) for x in left for y in right]


def union(*gs):
    nodes, edges = [], []
    off = 0
    for ns, es in gs:
        m = {n: i + off + 1 for i, n in enumerate(ns)}
        nodes += [m[n] for n in ns]
        edges += [(min(m[a], m[b]), max(m[a], m[b])) for a, b in es]
        off += len(ns)
    return nodes, edges


def structured(rng, count):
    fams = {
        'cycle': lambda: cycle(rng.randint(3, 6)), 'path': lambda: path(rng.randint(2, 5)), 'star': lambda: star(rng.randint(2, 4)),
        'bipartite': lambda: bipartite(rng.randint(1, 2), rng.randint(2, 3)),
        'two-arms': lambda: (list(range(1, 6)), [(1, 2), (2, 3), (1, 4), (4, 5)]),
        'bowtie': lambda: (list(range(1, 6)), [(1, 2), (1, 3), (2, 3), (3, 4), (3, 5), (4, 5)]),
        'union': lambda: union(path(2), path(2)), 'union-iso': lambda: union(cycle(3), (list([1]), [])),
        'isolated': lambda: union(path(rng.randint(2, 3)), ([1], []), ([1], [])),
    }
    names = sorted(fams)
    for _ in range(count):
        fh, fg = rng.choice(names), rng.choice(names)
        hn, he = fams[fh]()
        gn, ge = fams[fg]()
        if rng.random() < 0.5:       # make the graph contain the pattern plus something
            gn, ge = union((hn, he), fams[rng.choice(names)]())
        if len(gn) > 8 or len(hn) > 6:
            continue
        ncol_h = ncol_g = ecol_h = ecol_g = None
        r = rng.random()
        if r < 0.3:
            ncol_h = {n: rng.randint(0, 1) for n in hn}
            ncol_g = {n: rng.randint(0, 1) for n in gn}
        elif r < 0.5:
            ecol_h = {e: rng.randint(0, 1) for e in he}
            ecol_g = {e: rng.randint(0, 1) for e in ge}
        H, G = mk(hn, he, ncol_h, ecol_h), mk(gn, ge, ncol_g, ecol_g)
        # any node numbering: sparse shuffled integers
        mh = dict(zip(hn, rng.sample(range(1, 60), len(hn))))
        mg = dict(zip(gn, rng.sample(range(100, 190), len(gn))))
        yield relabel(G, mg), relabel(H, mh), 'structured:%s-in-%s' % (fh, fg)


def coloured_rings(rng):
    """Rings of 4..8 atoms with PERIODIC edge / node colourings (alternating bond orders, every third atom different, ...):
    the colouring cuts the symmetry group of the ring down to a proper subgroup. Pattern in itself and in itself plus a tail."""
    for n in range(4, 9):
        for what in ('edge', 'node'):
            for period, phase in ((2, 0), (3, 0), (4, 0), (n, 1)):
                if period > n:
                    continue
                hn, he = cycle(n)
                col = lambda i: 1 if i % period == phase % period else 0      # noqa: E731
                ecol = {e: col(i) for i, e in enumerate(he)} if what == 'edge' else None
                ncol = {x: col(i) for i, x in enumerate(hn)} if what == 'node' else None
                H = mk(hn, he, ncol, ecol)
                H['force_match'] = True
                for tail in (0, 1):
                    gn, ge = list(hn), list(he)
                    gcol_e, gcol_n = dict(ecol or {}), dict(ncol or {})
                    if tail:
                        gn = gn + [n + 1]
                        ge = ge + [(1, n + 1)]
                        gcol_e[(1, n + 1)] = 0
                        gcol_n[n + 1] = 0
                    G = mk(gn, ge, gcol_n if what == 'node' else None, gcol_e if what == 'edge' else None)
                    G['force_match'] = True
                    mh = dict(zip(hn, rng.sample(range(1, 60), len(hn))))
                    mg = dict(zip(gn, rng.sample(range(100, 190), len(gn))))
                    Gr, Hr = relabel(G, mg), relabel(H, mh)
                    Gr['force_match'] = Hr['force_match'] = True
                    yield Gr, Hr, 'ring%d-%s-period%d%s' % (n, what, period, '+tail' if tail else '')


def widened(rng, count):
    """three node colours; patterns LARGER than the graph (largest common subgraph must shrink the pattern); isolated nodes on
    both sides.  Half of the draws use a generator that does not depend on the seed."""
    fixed = random.Random(20261003)
    shapes = [lambda r: cycle(r.randint(3, 5)), lambda r: path(r.randint(2, 4)), lambda r: star(r.randint(2, 3)),
              lambda r: (list(range(1, 6)), [(1, 2), (2, 3), (1, 4), (4, 5)]), lambda r: union(path(2), path(2)), lambda r: union(cycle(3), ([1], []))]
    for i in range(count):
        r = fixed if i % 2 == 0 else rng
        kind = ('three-colours', 'pattern-larger', 'isolated-nodes')[i % 3]
        if kind == 'three-colours':
            hn, he = list(all_graphs(3))[r.randrange(8)]
            gn, ge = list(all_graphs(4, base=11))[r.randrange(64)]
            hc = {n: r.randint(0, 2) for n in hn}
            gc = {n: r.randint(0, 2) for n in gn}
            if i % 4 == 0:           # the graph contains a copy of the pattern's colours
                gc = dict(zip(gn, [hc[n] for n in hn] + [r.randint(0, 2)]))
            G, H = mk(gn, ge, gc), mk(hn, he, hc)
            G['force_match'] = H['force_match'] = True
        elif kind == 'pattern-larger':
            while True:
                gn, ge = shapes[r.randrange(len(shapes))](r)
                extra = shapes[r.randrange(len(shapes))](r)
                hn, he = union((gn, ge), extra)
                if len(hn) <= 7:
                    break
            if r.random() < 0.5:      # bind the extra part to the copy of the graph
                he = he + [(1, len(gn) + 1)]
            cols = r.random() < 0.4
            G = mk(gn, ge, {n: r.randint(0, 1) for n in gn} if cols else None)
            H = mk(hn, he, {n: r.randint(0, 1) for n in hn} if cols else None)
        else:
            while True:
                hn, he = union(shapes[r.randrange(len(shapes))](r), *[([1], [])] * r.randint(1, 2))
                gn, ge = union(shapes[r.randrange(len(shapes))](r), *[([1], [])] * r.randint(1, 3))
                if len(hn) <= 6 and len(gn) <= 8:
                    break
            cols = r.random() < 0.3
            G = mk(gn, ge, {n: r.randint(0, 2) for n in gn} if cols else None)
            H = mk(hn, he, {n: r.randint(0, 2) for n in hn} if cols else None)
        fm = G.get('force_match')
        mh = dict(zip([n for n, _ in H['nodes']], r.sample(range(1, 60), len(H['nodes']))))
        mg = dict(zip([n for n, _ in G['nodes']], r.sample(range(100, 190), len(G['nodes']))))
        G, H = relabel(G, mg), relabel(H, mh)
        if fm:
            G['force_match'] = H['force_match'] = True
        yield G, H, 'widened:' + kind


def all_cases(tier, seed):
    rng = random.Random(seed)
    yield from small_scope(tier)
    yield from widened(random.Random(seed + 1000003), 252 if tier == 'quick' else 3000)
    yield from structured(rng, 150 if tier == 'quick' else 4000)
    for r in coloured_rings(rng):
        if tier != 'quick' or len(r[1]['nodes']) <= 6:
            yield r


class _TimeLimit(BaseException):
    pass


def _limited(seconds, fn, *args):
    """the synthetic graphs are tiny: a call that does not return within `seconds` is inconclusive (counted), not a verdict"""
    import signal
    if _TIMEOUTS[0] >= 5:          # this worker met five calls that did not return: do not spend the budget on more of them
        return [], 'time limit'

    def onalarm(signum, frame):
        raise _TimeLimit()
    old = signal.signal(signal.SIGALRM, onalarm)
    signal.setitimer(signal.ITIMER_REAL, seconds)
    try:
        return fn(*args), ''
    except _TimeLimit:
        _TIMEOUTS[0] += 1
        return [], 'time limit'
    except Exception as exc:      # noqa
        return [], repr(exc)[:200]
    finally:
        signal.setitimer(signal.ITIMER_REAL, 0)
        signal.signal(signal.SIGALRM, old)


SYN_LIMIT = 6
_TIMEOUTS = [0]


def _collect_events(args):
    # every worker enumerates the cases itself and keeps its share (contiguous blocks of 50, dealt round-robin): the list of
    # all thorough cases is several GB once it is copied into 16 forked workers
    tier, seed, part, nparts = args
    cases = [c for i, c in enumerate(all_cases(tier, seed)) if (i // 50) % nparts == part]
    out = []
    # One symmetry cache shared by all matchers of this worker, as RepairGraph shares one across residues: a matcher must
    # give the same answers whatever other patterns were analysed before it (every third case runs without a cache).
    shared = {}
    for ci, (G, H, fam) in enumerate(cases):
        cache = None if ci % 3 == 2 else shared
        for mode in ('iso', 'lcs'):
            for sym in (False, True):
                Y, err = _limited(SYN_LIMIT, run_ismags, G, H, mode, sym, cache)
                out.append({'G': G, 'H': H, 'mode': mode, 'sym': sym, 'Y': Y, 'fam': fam, 'err': err})
        if ci % 2 == 0:
            # query sequences on ONE matcher object: the earlier query must not change the later answer
            for pre, mode, sym in (('iso', 'lcs', ci % 4 == 0), ('sub', 'lcs', True), ('lcs', 'iso', ci % 4 == 0)):
                Y, err = _limited(SYN_LIMIT, run_ismags, G, H, mode, sym, None, pre)
                out.append({'G': G, 'H': H, 'mode': mode, 'sym': sym, 'Y': Y, 'fam': fam + '/after-' + pre, 'err': err})
    return out


def _judge(shard):
    work = tlc.scratch('c06_')
    tf = tlc.write_json(work, 'trace.json', [{k: e[k] for k in ('G', 'H', 'mode', 'sym', 'Y')} for e in shard])
    res = tlc.run('Trace_SubIso', 'SPECIFICATION Spec\n', dump=True, env={'TRACE_FILE': tf}, workdir=work, workers=1, timeout=3400)
    return res.distinct, res.generated, {st['tid']: st['verdict'] for st in res.states() if st['verdict'] != 'pending'}


def _run_events(args):
    """One worker: run its share of the cases through ISMAGS, let TLC judge them in batches, return a summary (the events of
    the thorough tier do not fit in memory sixteen times over)."""
    import hashlib
    import json
    import shutil
    events = _collect_events(args)
    out = {'d': 0, 'g': 0, 'n': 0, 'fam': {}, 'nontrivial': set(), 'bad': [], 'sample': None, 'inconclusive': {}}
    nlim = sum(1 for e in events if e['err'] == 'time limit')
    if nlim:
        out['inconclusive']['synthetic'] = nlim
        events = [e for e in events if e['err'] != 'time limit']
    for lo in range(0, len(events), 6000):
        shard = events[lo:lo + 6000]
        work = tlc.scratch('c06_')
        try:
            tf = tlc.write_json(work, 'trace.json', [{k: e[k] for k in ('G', 'H', 'mode', 'sym', 'Y')} for e in shard])
            res = tlc.run('Trace_SubIso', 'SPECIFICATION Spec\n', dump=True, env=dict(c06_real.JOPTS if args[0] == 'quick' else {}, TRACE_FILE=tf), workdir=work, workers=1, timeout=3400)
            verdicts = {st['tid']: st['verdict'] for st in res.states() if st['verdict'] != 'pending'}
        finally:
            shutil.rmtree(work, ignore_errors=True)
        out['d'] += res.distinct
        out['g'] += res.generated
        for i, e in enumerate(shard, 1):
            out['n'] += 1
            out['fam'][e['fam']] = out['fam'].get(e['fam'], 0) + 1
            v = verdicts.get(i, 'no-verdict')
            if e['err']:
                v = 'matcher-raised ' + e['err']
            if len(e['H']['nodes']) >= 2 and len(e['G']['nodes']) >= 2:
                case = [e['G'], e['H'], e['mode'], e['sym']]
                out['nontrivial'].add(hashlib.sha1(json.dumps(common.jsonable(case), sort_keys=True).encode()).hexdigest()[:16])
            if v != 'ok':
                out['bad'].append(({k: e[k] for k in ('G', 'H', 'mode', 'sym', 'Y', 'fam')}, '%s symmetry=%s on %s: %s' % (e['mode'], e['sym'], e['fam'], v)))
        if out['sample'] is None and shard:
            out['sample'] = {k: shard[len(shard) // 2][k] for k in ('G', 'H', 'mode', 'sym', 'Y')}
    return out


def judge_events(events, ev, vd):
    """(selftest / replay) judge a small list of events in this process."""
    d, g, verdicts = _judge(events)
    ev.states += d
    ev.transitions += g
    fam = {}
    for i, e in enumerate(events, 1):
        ev.traces += 1
        ev.evaluations += 1
        fam[e['fam']] = fam.get(e['fam'], 0) + 1
        v = verdicts.get(i, 'no-verdict')
        if e['err']:
            v = 'matcher-raised ' + e['err']
        if len(e['H']['nodes']) >= 2 and len(e['G']['nodes']) >= 2:
            ev.nontrivial_case([e['G'], e['H'], e['mode'], e['sym']])
        if v != 'ok':
            vd.violation('trace-rejected', {k: e[k] for k in ('G', 'H', 'mode', 'sym', 'Y', 'fam')},
                         '%s symmetry=%s on %s: %s' % (e['mode'], e['sym'], e['fam'], v))
    return fam


FLOORS_REAL = {          # (quick, thorough) minimum number of JUDGED events per feature: the real-pattern part cannot pass vacuously
    'real:self judged': (100, 1000), 'real:removed judged': (300, 3000), 'real:attached judged': (60, 400), 'real:inside judged': (100, 1000),
    'real:other judged': (50, 300), 'real:self symmetric pattern': (40, 400), 'real:self |Aut| >= 12': (10, 100),
    'real:removed symmetric pattern, symmetry on, isomorphisms exist': (40, 400), 'real:inside symmetric pattern, symmetry on, isomorphisms exist': (20, 200),
    'real:attached lcs, pattern larger than graph': (60, 400), 'history:chain queries with a shared cache': (100, 250),
    'history:twins queries with a shared cache': (60, 60), 'history:twins symmetric pattern': (20, 20),
    'judged by enumeration AND certificate': (300, 1500),
}
FLOORS_SYN = {'widened:three-colours': (250, 2500), 'widened:pattern-larger': (250, 2500), 'widened:isolated-nodes': (250, 2500)}


def run(tier, seed, ev, vd):
    ev.rule = ('Exhaustive: all labelled patterns x all labelled graphs up to the bound (plain, 2 node colours, 2 edge colours) x '
               '{isomorphisms, largest common subgraph} x symmetry {off, on}; structured families with sparse random numbering; '
               'real force-field blocks (self / atoms removed / atoms attached / other block; element and name equality) and shared-cache histories. '
               'Non-trivial = both graphs have >= 2 nodes; distinct by (G, H, mode, symmetry).')
    ev.assumptions = ['TLC evaluates the declarative definitions correctly', 'two thirds of the matchers of a worker share one symmetry cache (history of patterns analysed before)', 'node/edge equality is equality of an integer colour',
                      'when nothing is common (maximum size 0) the answer of largest_common_subgraph is not constrained',
                      'REAL PATTERNS (modes *-cert): TLC does not enumerate; it verifies a certificate computed by networkx VF2 in the harness. CHECKED by TLC: every '
                      'mapping of the matcher and every listed mapping is an induced (partial) isomorphism respecting the equality; every listed symmetry is an automorphism of the '
                      'pattern, the identity is listed, the list is closed under composition (up to %d symmetries); the matcher\'s answer is a sub-list of the certificate; the classes '
                      'of the representatives under the listed symmetries lie in the list, are disjoint and exhaust it (free action: counting); the maximum common size min(|G|,|H|) is '
                      'reached by a verified mapping. TRUSTED: completeness of the VF2 lists (an isomorphism / symmetry neither VF2 nor the matcher finds stays unseen). '
                      'Cases of at most %d / %d nodes are judged by the enumeration as well and both judges must agree.' % (c06_real.CHK_A, c06_real.SMALL[0], c06_real.SMALL[1]),
                      'largest common subgraph on real patterns is judged only where the maximum is min(|G|,|H|) (atoms removed / attached: true by construction, verified by TLC) or '
                      'both graphs are small enough to enumerate; "other block" pairs above that size get the isomorphism queries only',
                      'cases with more than %d isomorphisms or %d symmetries are not generated (counted in skipped_real); matcher runs beyond the time limit are inconclusive (counted), never violations' % (c06_real.CAP_E, c06_real.CAP_A),
                      'canonicalize_modifications, do_links and map_parser use networkx GraphMatcher (VF2), not ISMAGS: outside this property\'s anchors',
                      'simple graphs only: SELF-LOOPS are not generated. The statement quantifies over size, labels, connectivity and numbering; molecules never carry self-loops. Observation: '
                      'ISMAGS ignores self-loops in the search but counts them in the one-edge look-ahead, e.g. pattern {7-8, 7-7} in the path 1-2-3: find_isomorphisms yields {2:7,1:8} and {2:7,3:8}, VF2 nothing.']
    quick = tier == 'quick'
    nparts = tlc.NCPU * 2
    cases, hists = c06_real.real_cases(tier, seed)
    tasks = [('hist', h) for h in hists]
    tasks += [('case', c) for c in sorted(cases, key=lambda c: -len(c['res']['nodes']) - len(c['ref']['nodes']))]
    tasks += [('syn', (tier, seed, part, nparts)) for part in range(nparts)]
    import os
    only = os.environ.get('C06_ONLY', '')          # debugging / mutation testing: 'real' or 'syn' part alone (never a complete check: exit 2 at the end)
    if only:
        tasks = [t for t in tasks if (t[0] == 'syn') == (only == 'syn')]
    tot = c06_real.run_tasks(tasks, (10, 60) if quick else (12, 180), _run_events, nreal=6 if quick else None)
    if tot['machinery']:
        raise tlc.MachineryError('C06: %d certificate / harness problems, first: %s' % (len(tot['machinery']), tot['machinery'][0][:1500]))
    ev.states += tot['d']
    ev.transitions += tot['g']
    ev.traces += tot['n']
    ev.evaluations += tot['n']
    ev.nontrivial |= tot['nontrivial']
    fam = tot['fam']
    for sc, detail in tot['bad']:
        vd.violation('trace-rejected', sc, detail)
    ev.exhaustive = True
    ev.extra['events_by_family'] = fam
    ev.extra['real_pattern_features'] = tot['feat']
    ev.extra['inconclusive_real (time limit)'] = tot['inconclusive']
    ev.extra['skipped_real'] = tot['skipped']
    ev.extra['real_cases'] = {'cases': len(cases), 'histories': len(hists), 'history_steps': sum(len(h['steps']) for h in hists)}
    ev.tlc_runs.append({'run': 'TRACE Trace_SubIso', 'events': tot['n']})
    if tot.get('sample'):
        ev.sample({'kind': 'recorded ISMAGS run judged by TLC', 'event': tot['sample']})
    for smp in tot.get('samples_real', [])[:1]:
        ev.sample({'kind': 'real pattern: recorded ISMAGS run + VF2 certificate (E, A) verified and judged by TLC', 'event': smp})
    # vacuity: every new family must have been judged often enough, whatever the seed
    k = 0 if quick else 1
    if only and not vd.count():
        raise tlc.MachineryError('C06_ONLY=%s: partial run without violations (%d events judged); not a complete check' % (only, tot['n']))
    if not vd.count():
        for key, floor in FLOORS_REAL.items():
            if tot['feat'].get(key, 0) < floor[k]:
                raise tlc.MachineryError('C06 vacuous: only %d judged events with feature %r (floor %d); inconclusive: %r' % (tot['feat'].get(key, 0), key, floor[k], tot['inconclusive']))
        for key, floor in FLOORS_SYN.items():
            if fam.get(key, 0) < floor[k]:
                raise tlc.MachineryError('C06 vacuous: only %d events of family %r (floor %d)' % (fam.get(key, 0), key, floor[k]))
        if tot['inconclusive'].get('synthetic', 0) > 10:
            raise tlc.MachineryError('C06: %d matcher calls on synthetic graphs of at most 8 nodes did not return within %d s' % (tot['inconclusive']['synthetic'], SYN_LIMIT))
        ninc = sum(n for k, n in tot['inconclusive'].items() if k != 'synthetic')
        if ninc > 0.1 * (len(cases) + len(hists)):
            raise tlc.MachineryError('C06: %d of %d real-pattern tasks hit the time limit' % (ninc, len(cases) + len(hists)))


def replay(sc):
    mode = sc['mode'].split('-')[0]
    G, H = dict(sc['G'], force_match=True), sc['H']
    if mode == 'first':
        now = run_ismags(G, H, 'lcs', True)[:1]
    else:
        now = run_ismags(G, H, mode, sc['sym'])
    print('ISMAGS output now:', now)
    print('recorded        :', sc['Y'])
    e = dict(sc, Y=now, err='')
    e.setdefault('fam', 'replay')
    if 'E' in sc:
        print('verdict on the output now:', c06_real.judge([e])[2][0])
        return 0
    print('verdict on the output now:', _judge([e])[2].get(1))
    return 0


def _real_selftest_events():
    """a real pattern with 12 symmetries and 72 isomorphisms (charmm VAL with hydrogens, N and HG11 removed, in VAL), benzene
    heavy atoms in benzene + 2 atoms, and VAL + 2 foreign atoms against VAL (largest common subgraph, pattern larger)"""
    L = c06_real.lib()['charmm']
    val = L['VAL']
    drop = [n[0] for n in val['nodes'] if n[1] in ('N', 'HG11')]
    got = []
    c1 = c06_real._case('selftest', 'VAL -N -HG11', val, c06_real.without(val, drop), 'element')
    hv = c06_real.heavy(val)
    c2 = c06_real._case('selftest', 'VAL heavy + 2 atoms of GLY', hv, c06_real.attach(hv, c06_real.heavy(L['GLY']), random.Random(1), 2), 'element')
    for c in (c1, c2):
        c06_real._events_of(c, None, got.append)
    return got


def selftest(seed):
    G = mk([1, 2, 3], [(1, 2), (2, 3)])
    H = mk([7, 8], [(7, 8)])
    good = {'G': G, 'H': H, 'mode': 'iso', 'sym': False, 'Y': run_ismags(G, H, 'iso', False), 'fam': 's', 'err': ''}
    bad1 = dict(good, Y=good['Y'][:-1])
    bad2 = dict(good, sym=True)                                   # all four given as if symmetry-reduced
    bad3 = dict(good, Y=good['Y'] + [[[1, 7], [3, 8]]])          # not an edge
    # widened scope: three colours (a colour swapped in the answer's graph), pattern larger than the graph (answer shrunk)
    G3 = dict(mk([1, 2, 3, 4], [(1, 2), (2, 3), (3, 4)], {1: 0, 2: 1, 3: 2, 4: 0}), force_match=True)
    H3 = dict(mk([7, 8], [(7, 8)], {7: 1, 8: 2}), force_match=True)
    good3 = {'G': G3, 'H': H3, 'mode': 'iso', 'sym': True, 'Y': run_ismags(G3, H3, 'iso', True), 'fam': 's3', 'err': ''}
    assert good3['Y'] == [[[2, 7], [3, 8]]], good3['Y']
    bad4 = dict(good3, Y=[[[1, 7], [2, 8]]])                      # colours 0-1 instead of 1-2
    GL = mk([1, 2, 3], [(1, 2), (2, 3)])
    HL = mk([5, 6, 7, 8, 9], [(5, 6), (6, 7), (7, 8), (8, 9)])
    goodL = {'G': GL, 'H': HL, 'mode': 'lcs', 'sym': True, 'Y': run_ismags(GL, HL, 'lcs', True), 'fam': 'sL', 'err': ''}
    assert goodL['Y'] and all(len(y) == 3 for y in goodL['Y']), goodL['Y']
    bad5 = dict(goodL, Y=[y[:2] for y in goodL['Y']])            # smaller than the maximum
    bad6 = dict(goodL, Y=goodL['Y'][:1]) if len(goodL['Y']) > 1 else dict(goodL, Y=[])     # a maximum common subgraph not covered
    ev = common.Evidence(PID, 'quick', seed)
    vd = common.Verdicts(PID, ev)
    judge_events([good, bad1, bad2, bad3, good3, bad4, goodL, bad5, bad6], ev, vd)
    assert len(vd.violations) == 6, vd.violations
    print('selftest C06: tampered outputs rejected:', [d.split(': ')[-1] for k, p, d in vd.violations])
    # certificate judges on real patterns
    import copy
    evs = _real_selftest_events()
    e = next(x for x in evs if x['mode'] == 'iso-cert' and x['sym'] and x['nA'] == 12 and x['nE'] == 72)
    e2 = next(x for x in evs if x['mode'] == 'iso-cert' and not x['sym'] and x['nE'] == 72)
    l = next(x for x in evs if x['mode'].startswith('lcs-') and x['sym'] and len(x['H']['nodes']) > len(x['G']['nodes']))
    assert len(e['Y']) == 6 and len(l['Y']) >= 2, (len(e['Y']), len(l['Y']))
    other = next(m for m in e['E'] if m not in e['Y'])
    swapped = copy.deepcopy(e['Y'])
    swapped[0][0][0], swapped[0][1][0] = swapped[0][1][0], swapped[0][0][0]
    tampered = [
        (e, 'ok'), (e2, 'ok'), (l, 'ok'),
        (dict(e, Y=e['Y'][:-1]), 'class-without-representative'),
        (dict(e, Y=e['Y'] + [other]), 'two-representatives-of-one-class'),
        (dict(e, Y=swapped), 'not-an-induced-isomorphism'),
        (dict(e2, Y=e2['Y'][:-1]), 'isomorphism-missing'),
        (dict(e2, Y=e2['Y'] + e2['Y'][:1]), 'isomorphism-yielded-twice'),
        (dict(l, Y=l['Y'][:-1]), 'maximum-common-subgraph-not-covered'),
        (dict(l, Y=[y[:-1] for y in l['Y']]), 'not-of-maximum-size'),
        # a tampered CERTIFICATE is a machinery failure, never a verdict on the matcher
        (dict(e, E=e['E'][:-1]), 'certificate:'), (dict(e, A=e['A'][:-1]), 'certificate:'), (dict(e, E=e['E'] + [swapped[0]]), 'certificate:'),
        (dict(e2, E=e2['E'][:-1]), 'certificate:'), (dict(l, E=[]), 'certificate:'),
    ]
    _, _, verdicts = c06_real.judge([t for t, _ in tampered])
    for (t, want), v in zip(tampered, verdicts):
        assert v.startswith(want), (want, v)
    print('selftest C06: certificate judges on real patterns (charmm VAL, 12 symmetries, 72 isomorphisms):', verdicts[3:])
    # the signature of the known finding C06-ring5-two-leaves is narrow: only duplicates of one class, symmetry on, on a pattern
    # with a 5-ring whose atoms each carry exactly two leaves
    def ring(n, leaves):
        ns, es = cycle(n)
        k = n
        for c in range(1, n + 1):
            for _ in range(leaves):
                k += 1
                ns, es = ns + [k], es + [(c, k)]
        return mk(ns, es)
    sig = SIGNATURES['C06-ring5-two-leaves']
    dup = 'two-representatives-of-one-class'
    assert sig('trace-rejected', {'H': ring(5, 2), 'sym': True, 'verdict': dup})
    assert not sig('trace-rejected', {'H': ring(6, 2), 'sym': True, 'verdict': dup})
    assert not sig('trace-rejected', {'H': ring(5, 1), 'sym': True, 'verdict': dup})
    assert not sig('trace-rejected', {'H': ring(5, 2), 'sym': True, 'verdict': 'class-without-representative'})
    assert not sig('trace-rejected', {'H': ring(5, 2), 'sym': False, 'verdict': 'isomorphism-yielded-twice'})
    print('selftest C06: signature of the known finding matches cyclopentane-with-leaves duplicates only')
    import os
    for k, p, d in vd.violations:
        os.path.exists(p) and os.remove(p)
    return 0
